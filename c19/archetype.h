// Archetype scalar for property C19: offers ONLY the documented operations.
//   default / copy construction, construction from an integer through an EXPLICIT constructor (static_cast<Q>(int)),
//   + - * / and their compound forms, unary minus, the six comparisons.
// No implicit conversion from or to built-in numbers, no <cmath> overloads, no numeric_limits, no streaming.
#ifndef C19_ARCHETYPE_H
#define C19_ARCHETYPE_H
#include <cstddef>
namespace c19 {
class Q {
  long long n_ = 0, d_ = 1;   // an exact fraction, never normalised: the arithmetic is irrelevant for the type check
 public:
  Q() = default;
  Q(const Q &) = default;
  Q &operator=(const Q &) = default;
  explicit Q(int v) : n_(v) {}
  explicit Q(long v) : n_(v) {}
  explicit Q(long long v) : n_(v) {}
  explicit Q(unsigned v) : n_(v) {}
  explicit Q(unsigned long v) : n_(static_cast<long long>(v)) {}
  explicit Q(unsigned long long v) : n_(static_cast<long long>(v)) {}
  friend Q operator+(const Q &a, const Q &b) { Q r; r.n_ = a.n_ * b.d_ + b.n_ * a.d_; r.d_ = a.d_ * b.d_; return r; }
  friend Q operator-(const Q &a, const Q &b) { Q r; r.n_ = a.n_ * b.d_ - b.n_ * a.d_; r.d_ = a.d_ * b.d_; return r; }
  friend Q operator*(const Q &a, const Q &b) { Q r; r.n_ = a.n_ * b.n_; r.d_ = a.d_ * b.d_; return r; }
  friend Q operator/(const Q &a, const Q &b) { Q r; r.n_ = a.n_ * b.d_; r.d_ = a.d_ * b.n_; if (r.d_ < 0) { r.n_ = -r.n_; r.d_ = -r.d_; } return r; }
  Q &operator+=(const Q &b) { return *this = *this + b; }
  Q &operator-=(const Q &b) { return *this = *this - b; }
  Q &operator*=(const Q &b) { return *this = *this * b; }
  Q &operator/=(const Q &b) { return *this = *this / b; }
  Q operator-() const { Q r(*this); r.n_ = -r.n_; return r; }
  friend bool operator==(const Q &a, const Q &b) { return a.n_ * b.d_ == b.n_ * a.d_; }
  friend bool operator!=(const Q &a, const Q &b) { return !(a == b); }
  friend bool operator<(const Q &a, const Q &b) { return a.n_ * b.d_ < b.n_ * a.d_; }
  friend bool operator>(const Q &a, const Q &b) { return b < a; }
  friend bool operator<=(const Q &a, const Q &b) { return !(b < a); }
  friend bool operator>=(const Q &a, const Q &b) { return !(a < b); }
};
}  // namespace c19
#endif

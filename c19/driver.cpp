// C19: every core template and the generic interpolation routine instantiated with the archetype scalar,
// calling every public operation.  The deciding step is the C++ type checker.
#include "archetype.h"
#include <bspline/Core.h>
#include <bspline/interpolation/interpolation.h>
using Q = c19::Q;
using namespace bspline;
using namespace bspline::operators;
using namespace bspline::integration;
template class bspline::support::Grid<Q>;
template class bspline::support::Support<Q>;
template class bspline::Spline<Q, 0>;
template class bspline::Spline<Q, 2>;
template class bspline::BSplineGenerator<Q>;

struct ExactSolver final : public bspline::interpolation::internal::ISolver<Q> {
  std::vector<Q> m, rhs, sol;
  size_t n;
  explicit ExactSolver(size_t problemsize) : m(problemsize * problemsize), rhs(problemsize), sol(problemsize), n(problemsize) {}
  Q &M(size_t i, size_t j) override { return m[i * n + j]; }
  Q &b(size_t i) override { return rhs[i]; }
  void solve() override { sol = rhs; }
  Q &x(size_t i) override { return sol[i]; }
};

Q use(const std::vector<Q> &knots) {
  BSplineGenerator<Q> gen(knots);
  BSplineGenerator<Q> gen2(knots, gen.getGrid());
  auto b0 = gen.generateBSplines<0>();
  auto b2 = gen.generateBSplines<2>();
  auto b3 = bspline::generateBSplines<3>(knots);
  const Spline<Q, 2> &a = b2.front();
  const Spline<Q, 2> &b = b2.back();
  Q acc = a(knots.front()) + a.front() + a.back();
  acc += Q(static_cast<int>(a.checkOverlap(b))) + Q(static_cast<int>(a.isZero())) + Q(static_cast<int>(a == b)) + Q(static_cast<int>(a != b));
  auto p = a * b;
  auto s = a + b0.front();
  auto d = a - b;
  Spline<Q, 2> t = a;
  t += b;
  t -= b;
  t *= Q(2);
  t /= Q(2);
  t = b0.front();
  auto u = -t;
  auto v = Q(3) * t / Q(4);
  auto lc = linearCombination(std::vector<Q>{Q(1), Q(2)}, std::vector<Spline<Q, 2>>{a, b});
  acc += p(Q(1)) + s(Q(1)) + d(Q(1)) + u(Q(1)) + v(Q(1)) + lc(Q(1));
  // operators and forms
  auto h = Q(1) / Q(2) * (-Dx<2>{} + X<2>{}) + X<1>{} * Dx<1>{} - Q(3) + (Dx<1>{} / Q(2)) * SplineOperator{b0.front()};
  acc += BilinearForm{h}.evaluate(a, b) + BilinearForm{Dx<1>{}, X<1>{}}(a, b) + ScalarProduct{}(a, b) + LinearForm{h}(a) + LinearForm{}.evaluate(a);
  auto ha = h * a;
  acc += ha(Q(1)) + (IdentityOperator{} * a)(Q(1)) + (Q(2) * X<1>{} * a)(Q(1)) + ((X<1>{} - Q(1)) * a)(Q(1)) + ((Q(1) - X<1>{}) * a)(Q(1)) + ((-X<1>{}) * a)(Q(1));
  // every template branch of the primitive operators: derivative order above / equal to / below the spline order
  acc += (Dx<3>{} * a)(Q(1)) + (Dx<2>{} * a)(Q(1)) + (Dx<1>{} * a)(Q(1)) + (Dx<0>{} * a)(Q(1)) + (Dx<1>{} * b0.front())(Q(1)) + (X<0>{} * a)(Q(1)) + (X<3>{} * b0.front())(Q(1));
  // supports and grids
  const auto &sup = a.getSupport();
  auto un = sup.calcUnion(b.getSupport());
  auto in = sup.calcIntersection(b.getSupport());
  acc += sup.at(0) + sup[0] + sup.front() + sup.back() + gen.getGrid().at(0) + gen.getGrid()[0] + gen.getGrid().front() + gen.getGrid().back();
  acc += Q(static_cast<int>(un == in)) + Q(static_cast<int>(un != in)) + Q(static_cast<unsigned long>(gen.getGrid().findElement(knots.front())));
  for (const Q &x : sup) acc += x;
  for (const Q &x : gen.getGrid()) acc += x;
  // generic interpolation with an exact solver
  auto ip = bspline::interpolation::interpolate<Q, 3, ExactSolver>(sup, std::vector<Q>(sup.size(), Q(1)));
  auto ip1 = bspline::interpolation::interpolate<Q, 1, ExactSolver>(sup, std::vector<Q>(sup.size(), Q(1)));
  acc += ip(Q(1)) + ip1(Q(1));
  return acc;
}

// Driver TU "interp": generic interpolate() over an ABSTRACT linear solver (namespace bspline_verif_abs, declared
// only): bs2c renders the calls to its members as calls to abstract C functions under assumed contracts
// (contracts/interp.ctr): writes through M(i,j) / b(i) are checked to lie inside the system and otherwise dropped,
// x(i) reads an arbitrary but fixed solution vector.
#include <bspline/Core.h>
#include <bspline/interpolation/interpolation.h>
using namespace bspline;
namespace bspline_verif_abs {
template <typename T>
class AbsSolver : public bspline::interpolation::internal::ISolver<T> {
 public:
  size_t n;
  AbsSolver(size_t problemsize);
  T &M(size_t i, size_t j) override;
  T &b(size_t i) override;
  void solve() override;
  T &x(size_t i) override;
};
}  // namespace bspline_verif_abs
using bspline_verif_abs::AbsSolver;
using namespace bspline::interpolation;
void use(const Support<double> &x, const std::vector<double> &y, const std::array<Boundary<double>, 0> &b1,
         const std::array<Boundary<double>, 1> &b2, const std::array<Boundary<double>, 2> &b3) {
  (void)interpolate<double, 1, AbsSolver<double>>(x, y, b1);
  (void)interpolate<double, 2, AbsSolver<double>>(x, y, b2);
  (void)interpolate<double, 3, AbsSolver<double>>(x, y, b3);
  (void)bspline::interpolation::internal::defaultBoundaries<double, 1>();
  (void)bspline::interpolation::internal::defaultBoundaries<double, 2>();
  (void)bspline::interpolation::internal::defaultBoundaries<double, 3>();
  (void)bspline::interpolation::internal::defaultBoundaries<double, 4>();
}

// Driver TU "ops": names the instantiations of the operator classes and of the forms.
// Abstract child operators (namespace bspline_verif_abs) are declared only: bs2c renders a call to them as a call to
// an abstract C function under an assumed contract ("a deterministic function of input, grid and index").
#include <bspline/Core.h>
#include <utility>
using namespace bspline;
using namespace bspline::operators;
using namespace bspline::integration;
namespace bspline_verif_abs {
template <size_t K, int TAG>
struct AbsUp final : public bspline::operators::Operator {
  static constexpr size_t outputOrder(size_t inputOrder) { return inputOrder + K; }
  template <typename T, size_t size>
  std::array<T, size + K> transform(const std::array<T, size> &input, const bspline::support::Grid<T> &grid,
                                    size_t intervalIndex) const;
};
}  // namespace bspline_verif_abs
using bspline_verif_abs::AbsUp;

template <typename O, size_t... S>
void tr_sizes(const O &o, const Grid<double> &g, std::index_sequence<S...>) {
  ((void)o.transform(std::array<double, S + 1>{}, g, 0), ...);
}
template <size_t... N>
void prim(const Grid<double> &g, std::index_sequence<N...>) {
  (tr_sizes(Derivative<N>{}, g, std::make_index_sequence<4>{}), ...);
  (tr_sizes(Position<N>{}, g, std::make_index_sequence<4>{}), ...);
}
template <typename O>
void apply_all(const O &o, const Spline<double, 0> &s0, const Spline<double, 1> &s1, const Spline<double, 2> &s2) {
  (void)(o * s0);
  (void)(o * s1);
  (void)(o * s2);
}
void use(const Grid<double> &g, const Spline<double, 0> &s0, const Spline<double, 1> &s1, const Spline<double, 2> &s2,
         const Spline<double, 3> &s3, double c, int k) {
  prim(g, std::make_index_sequence<5>{});
  tr_sizes(IdentityOperator{}, g, std::make_index_sequence<4>{});
  (void)bspline::internal::faculty<double>(3);
  (void)bspline::internal::facultyRatio<double>(3, 1);
  (void)bspline::internal::binomialCoefficient<double>(3, 1);
  // application of the primitive operators to splines
  apply_all(IdentityOperator{}, s0, s1, s2);
  apply_all(Derivative<0>{}, s0, s1, s2);
  apply_all(Derivative<1>{}, s0, s1, s2);
  apply_all(Derivative<2>{}, s0, s1, s2);
  apply_all(Position<1>{}, s0, s1, s2);
  apply_all(Position<2>{}, s0, s1, s2);
  (void)(IdentityOperator{} * s3);
  // compound operators over abstract children
  // (operators are combined as temporaries: the factory overloads deduce reference types for lvalues)
  using A0 = AbsUp<0, 1>;
  using A1 = AbsUp<1, 2>;
  using A2 = AbsUp<2, 3>;
  using B0 = AbsUp<0, 4>;
  tr_sizes(A0{} * B0{}, g, std::make_index_sequence<3>{});
  tr_sizes(A1{} * A2{}, g, std::make_index_sequence<3>{});
  tr_sizes(A2{} * A1{}, g, std::make_index_sequence<3>{});
  tr_sizes(A0{} + B0{}, g, std::make_index_sequence<3>{});
  tr_sizes(A0{} + A1{}, g, std::make_index_sequence<3>{});
  tr_sizes(A2{} + A1{}, g, std::make_index_sequence<3>{});
  tr_sizes(A0{} - B0{}, g, std::make_index_sequence<3>{});
  tr_sizes(A0{} - A1{}, g, std::make_index_sequence<3>{});
  tr_sizes(A2{} - A1{}, g, std::make_index_sequence<3>{});
  tr_sizes(c * A1{}, g, std::make_index_sequence<3>{});
  tr_sizes(A1{} * c, g, std::make_index_sequence<3>{});
  tr_sizes(A1{} / c, g, std::make_index_sequence<3>{});
  tr_sizes(k * A1{}, g, std::make_index_sequence<3>{});
  tr_sizes(A1{} / k, g, std::make_index_sequence<3>{});
  tr_sizes(-A1{}, g, std::make_index_sequence<3>{});
  tr_sizes(A1{} + c, g, std::make_index_sequence<3>{});
  tr_sizes(c + A1{}, g, std::make_index_sequence<3>{});
  tr_sizes(A1{} - c, g, std::make_index_sequence<3>{});
  tr_sizes(c - A1{}, g, std::make_index_sequence<3>{});
  // spline-valued factor
  tr_sizes(SplineOperator{s0}, g, std::make_index_sequence<3>{});
  tr_sizes(SplineOperator{s1}, g, std::make_index_sequence<3>{});
  tr_sizes(SplineOperator{s2}, g, std::make_index_sequence<3>{});
  apply_all(SplineOperator{s1}, s0, s1, s2);
  // the concrete expressions the repository itself uses
  tr_sizes(Dx<1>{} * X<1>{} - X<1>{} * Dx<1>{}, g, std::make_index_sequence<3>{});
  tr_sizes(0.5 * (-Dx<2>{} + X<2>{}), g, std::make_index_sequence<3>{});
  tr_sizes(c * (X<1>{} - c), g, std::make_index_sequence<3>{});
  tr_sizes(c * (c - X<1>{}), g, std::make_index_sequence<3>{});
  // forms
  (void)LinearForm{}.evaluate(s0);
  (void)LinearForm{}.evaluate(s1);
  (void)LinearForm{}.evaluate(s2);
  (void)LinearForm{}.evaluate(s3);
  (void)LinearForm{A1{}}.evaluate(s1);
  (void)LinearForm{A1{}}.evaluate(s2);
  (void)LinearForm{A1{}}(s1);
  (void)BilinearForm{A1{}, A2{}}.evaluate(s1, s2);
  (void)BilinearForm{A1{}, A2{}}.evaluate(s2, s1);
  (void)BilinearForm{A0{}, B0{}}.evaluate(s1, s1);
  (void)BilinearForm{A1{}, A2{}}(s1, s2);
  (void)BilinearForm{A0{}, B0{}}(s1, s1);
  (void)ScalarProduct{}.evaluate(s1, s2);
  (void)ScalarProduct{}.evaluate(s0, s0);
  (void)ScalarProduct{}.evaluate(s2, s2);
  (void)ScalarProduct{}.evaluate(s3, s3);
  (void)BilinearForm{X<1>{}}.evaluate(s1, s1);
  (void)BilinearForm{Dx<1>{}, Dx<1>{}}.evaluate(s2, s2);
}

// the private per-interval kernels of the forms for every size pair up to 4 x 4 (explicit instantiation ignores access)
#define BF bspline::integration::BilinearForm<bspline::operators::IdentityOperator, bspline::operators::IdentityOperator>
#define BFK(A, B) template double BF::evaluateInterval<double, A, B>(const std::array<double, A> &, const std::array<double, B> &, const double &);
BFK(1, 1) BFK(1, 2) BFK(1, 3) BFK(1, 4) BFK(2, 1) BFK(2, 2) BFK(2, 3) BFK(2, 4)
BFK(3, 1) BFK(3, 2) BFK(3, 3) BFK(3, 4) BFK(4, 1) BFK(4, 2) BFK(4, 3) BFK(4, 4)
#define LF bspline::integration::LinearForm<bspline::operators::IdentityOperator>
#define LFK(A) template double LF::evaluateInterval<double, A>(const std::array<double, A> &, const double &);
LFK(1) LFK(2) LFK(3) LFK(4) LFK(5) LFK(6)

// Driver TU "lincomb": linearCombination over std::vector collections.
#include <bspline/Core.h>
using namespace bspline;
void use(const std::vector<double> &c, const std::vector<Spline<double, 0>> &s0, const std::vector<Spline<double, 1>> &s1,
         const std::vector<Spline<double, 2>> &s2) {
  (void)bspline::linearCombination(c, s0);
  (void)bspline::linearCombination(c, s1);
  (void)bspline::linearCombination(c, s2);
}

// Driver TU "core": names the instantiations of Grid / Support / Spline whose
// bodies bs2c extracts.  It contains no logic of its own.
#include <bspline/Core.h>
using namespace bspline;
template class bspline::support::Grid<double>;
template class bspline::support::Support<double>;
template class bspline::Spline<double, 0>;
template class bspline::Spline<double, 1>;
template class bspline::Spline<double, 2>;
template class bspline::Spline<double, 3>;

template <size_t A, size_t B>
void pair_ops(const Spline<double, A> &a, const Spline<double, B> &b) {
  (void)(a * b);
  (void)(a + b);
  (void)(a - b);
  (void)a.checkOverlap(b);
  if constexpr (B <= A) {
    Spline<double, A> f = a;
    f += b;
    f -= b;
    if constexpr (B < A) f = b;
  }
}
template <size_t A>
void single_ops(const Spline<double, A> &a) {
  (void)(2.0 * a);
  pair_ops<A, 0>(a, Spline<double, 0>(a.getSupport().getGrid()));
  pair_ops<A, 1>(a, Spline<double, 1>(a.getSupport().getGrid()));
  pair_ops<A, 2>(a, Spline<double, 2>(a.getSupport().getGrid()));
  pair_ops<A, 3>(a, Spline<double, 3>(a.getSupport().getGrid()));
}
void use(const Spline<double, 0> &a0, const Spline<double, 1> &a1, const Spline<double, 2> &a2,
         const Spline<double, 3> &a3) {
  single_ops<0>(a0);
  single_ops<1>(a1);
  single_ops<2>(a2);
  single_ops<3>(a3);
}

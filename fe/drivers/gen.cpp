// Driver TU "gen": the B-spline generator.
#include <bspline/Core.h>
using namespace bspline;
template class bspline::BSplineGenerator<double>;
void use(const std::vector<double> &knots, const Grid<double> &g) {
  BSplineGenerator<double> gen(knots);
  BSplineGenerator<double> gen2(knots, g);
  (void)gen.generateBSplines<0>();
  (void)gen.generateBSplines<1>();
  (void)gen.generateBSplines<2>();
  (void)gen.generateBSplines<3>();
  (void)bspline::generateBSplines<2>(knots);
}

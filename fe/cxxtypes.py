"""Parsing of clang-printed C++ type strings into a small canonical form.

Only the closed set of types that occur in the BSplinebasis headers is
supported; anything else raises ExtractionError (=> exit 2, undecided).
"""
import re


class ExtractionError(Exception):
    pass


BUILTIN = {
    'unsigned long': 'size_t', 'unsigned long long': 'size_t', 'size_t': 'size_t',
    'std::size_t': 'size_t',
    'long': 'long', 'long long': 'long', 'std::ptrdiff_t': 'long', 'ptrdiff_t': 'long',
    'int': 'int', 'unsigned int': 'unsigned int', 'bool': '_Bool', 'double': 'T',
    'void': 'void', 'char': 'char',
}

_tok = re.compile(r'\s*(::|&&|[A-Za-z_][A-Za-z_0-9]*|\d+[uUlL]*|[<>,&*()+\-/%?:\[\]])')


class Ty:
    """name: qualified name ('std::vector'), args: list of Ty|int, plus
    const/ref/ptr decoration."""

    def __init__(self, name, args=None, const=False, ref='', ptr=0):
        self.name, self.args, self.const, self.ref, self.ptr = name, args or [], const, ref, ptr

    def base(self):
        return Ty(self.name, self.args)

    def key(self):
        s = self.name
        if self.args:
            s += '<' + ','.join(a.key() if isinstance(a, Ty) else str(a) for a in self.args) + '>'
        return s

    def __repr__(self):
        return ('const ' if self.const else '') + self.key() + '*' * self.ptr + self.ref

    def short(self):
        return self.name.split('::')[-1]


def tokenize(s):
    out, i = [], 0
    while i < len(s):
        m = _tok.match(s, i)
        if not m:
            if s[i:].strip() == '':
                break
            raise ExtractionError('type token: %r in %r' % (s[i:], s))
        out.append(m.group(1))
        i = m.end()
    return out


class _P:
    def __init__(self, toks, src):
        self.t, self.i, self.src = toks, 0, src

    def peek(self, k=0):
        return self.t[self.i + k] if self.i + k < len(self.t) else None

    def next(self):
        x = self.peek()
        self.i += 1
        return x

    def expect(self, x):
        if self.next() != x:
            raise ExtractionError('type parse: expected %s in %r' % (x, self.src))

    # ---- constant expressions (template arguments) ----
    def cexpr(self):
        v = self.cterm()
        while self.peek() in ('+', '-'):
            op = self.next()
            w = self.cterm()
            v = v + w if op == '+' else v - w
        return v

    def cterm(self):
        v = self.catom()
        while self.peek() in ('*', '/', '%'):
            op = self.next()
            w = self.catom()
            v = v * w if op == '*' else (v // w if op == '/' else v % w)
        return v

    def catom(self):
        x = self.next()
        if x is None:
            raise ExtractionError('constant expr in %r' % self.src)
        if x == '(':
            v = self.cexpr()
            self.expect(')')
            return v
        if x == '-':
            return -self.catom()
        if re.match(r'\d', x):
            return int(re.match(r'\d+', x).group(0))
        if x == 'std' and self.peek() == '::' and self.peek(1) in ('max', 'min'):
            self.next()
            f = self.next()
            self.expect('(')
            a = self.cexpr()
            self.expect(',')
            b = self.cexpr()
            self.expect(')')
            return max(a, b) if f == 'max' else min(a, b)
        raise ExtractionError('constant expr atom %r in %r' % (x, self.src))

    def looks_const(self):
        x = self.peek()
        if x is None:
            return False
        if re.match(r'\d', x) or x in ('(', '-'):
            return True
        if x == 'std' and self.peek(1) == '::' and self.peek(2) in ('max', 'min') and self.peek(3) == '(':
            return True
        return False

    # ---- types ----
    def ty(self):
        const = False
        while self.peek() in ('const', 'volatile', 'typename', 'class', 'struct', 'enum'):
            if self.next() == 'const':
                const = True
        parts = []
        # multiword builtins
        words = []
        while self.peek() in ('unsigned', 'signed', 'long', 'int', 'short', 'char', 'double', 'float', 'bool', 'void'):
            words.append(self.next())
        args = []
        if words:
            name = ' '.join(words)
        else:
            if self.peek() == '::':
                self.next()
            while True:
                x = self.next()
                if x is None or not re.match(r'[A-Za-z_]', x):
                    raise ExtractionError('type parse: name expected at %r in %r' % (x, self.src))
                seg_args = None
                if self.peek() == '<':
                    self.next()
                    seg_args = []
                    if self.peek() == '>':
                        self.next()
                    else:
                        while True:
                            if self.looks_const():
                                seg_args.append(self.cexpr())
                            else:
                                seg_args.append(self.ty())
                            y = self.next()
                            if y == '>':
                                break
                            if y != ',':
                                raise ExtractionError('type parse: , or > expected in %r' % self.src)
                parts.append((x, seg_args))
                if self.peek() == '::':
                    self.next()
                    continue
                break
            # template args of inner segments are kept only for the last segment
            # unless an outer one has them (e.g. Support<double>::AbsoluteIndex)
            name = '::'.join(p[0] for p in parts)
            outer_args = [p for p in parts[:-1] if p[1] is not None]
            if outer_args:
                # member typedef of a class template: keep the textual form
                name = '::'.join(p[0] + ('<' + ','.join(a.key() if isinstance(a, Ty) else str(a) for a in p[1]) + '>' if p[1] is not None else '') for p in parts[:-1]) + '::' + parts[-1][0]
            args = parts[-1][1] or []
        t = Ty(name, args, const)
        while self.peek() in ('const', '*', '&', '&&'):
            x = self.next()
            if x == 'const':
                t.const = True
            elif x == '*':
                t.ptr += 1
            else:
                t.ref = x
        return t


def parse_type(s):
    p = _P(tokenize(s), s)
    t = p.ty()
    if p.peek() is not None:
        raise ExtractionError('type parse: trailing %r in %r' % (p.t[p.i:], s))
    return t


def split_fn_type(s):
    """'R (A, B) const' -> (R, [A, B], quals)"""
    depth = 0
    # find the parameter list: the last top-level '(...)' group
    close = None
    for i in range(len(s) - 1, -1, -1):
        if s[i] == ')':
            close = i
            break
    if close is None:
        raise ExtractionError('function type %r' % s)
    depth = 0
    for i in range(close, -1, -1):
        if s[i] == ')':
            depth += 1
        elif s[i] == '(':
            depth -= 1
            if depth == 0:
                openp = i
                break
    ret = s[:openp].strip()
    params, cur, depth = [], '', 0
    for ch in s[openp + 1:close]:
        if ch in '<(':
            depth += 1
        elif ch in '>)':
            depth -= 1
        if ch == ',' and depth == 0:
            params.append(cur.strip())
            cur = ''
        else:
            cur += ch
    if cur.strip():
        params.append(cur.strip())
    return ret, params, s[close + 1:].strip()

#!/usr/bin/env python3
"""bs2c -- print instantiated BSplinebasis function bodies, taken from clang's
typed JSON AST, as by-value C for CBMC.

This is a printer for a closed subset.  Any AST node kind, std entity or type
outside the tables below raises ExtractionError; the caller turns that into
exit status 2 ("undecided"), never into a pass or an alarm.

See DESIGN.md section 3.2 for the list of what the translation changes.
"""
import json
import re
import sys
from cxxtypes import Ty, parse_type, split_fn_type, ExtractionError, BUILTIN

FUNC_KINDS = ('CXXMethodDecl', 'FunctionDecl', 'CXXConstructorDecl')

OPNAMES = {
    'operator*': 'op_mul', 'operator/': 'op_div', 'operator+': 'op_add', 'operator-': 'op_sub',
    'operator*=': 'op_muleq', 'operator/=': 'op_diveq', 'operator+=': 'op_addeq',
    'operator-=': 'op_subeq', 'operator=': 'op_assign', 'operator==': 'op_eq',
    'operator!=': 'op_ne', 'operator()': 'op_call', 'operator[]': 'op_idx',
}

# classes whose leading scalar template argument is dropped from the C name
DROP_T = {'Grid', 'Support', 'Spline', 'BSplineGenerator', 'SplineOperator', 'Boundary', 'ISolver'}


def load_json_stream(text):
    dec = json.JSONDecoder()
    i, n, out = 0, len(text), []
    while i < n:
        while i < n and text[i] in ' \n\r\t':
            i += 1
        if i >= n:
            break
        if text[i] != '{':
            j = text.find('\n', i)
            i = n if j < 0 else j + 1
            continue
        o, j = dec.raw_decode(text, i)
        out.append(o)
        i = j
    return out


def kids(n):
    return [c for c in n.get('inner', []) if c.get('kind') and not c['kind'].endswith('Comment')]


def qt(n):
    t = n.get('type', {})
    return t.get('desugaredQualType') or t.get('qualType')


def strip(n):
    """strip wrappers that have no meaning in the C rendering"""
    while n.get('kind') in ('ExprWithCleanups', 'CXXBindTemporaryExpr', 'MaterializeTemporaryExpr',
                            'ParenExpr', 'ConstantExpr', 'SubstNonTypeTemplateParmExpr') or \
            (n.get('kind') == 'ImplicitCastExpr' and n.get('castKind') in
             ('NoOp', 'LValueToRValue', 'FunctionToPointerDecay', 'ConstructorConversion',
              'DerivedToBase', 'UncheckedDerivedToBase')) or \
            (n.get('kind') in ('CXXFunctionalCastExpr', 'CXXStaticCastExpr') and n.get('castKind') in
             ('NoOp', 'ConstructorConversion')):
        if n.get('kind') == 'ConstantExpr' and 'value' in n and not kids(n):
            return n
        k = kids(n)
        if n.get('kind') == 'SubstNonTypeTemplateParmExpr' and k:
            n = k[-1]
            continue
        if len(k) != 1:
            return n
        n = k[0]
    return n


class FnInfo:
    def __init__(self, decl, cname):
        self.decl = decl
        self.cname = cname
        self.params = []          # list of (cname, Ty, decl id)
        self.ret = None           # Ty or None for void
        self.is_method = False
        self.is_static = False
        self.is_const = False
        self.is_ctor = False
        self.cls = None           # Ty of the class
        self.mutated = []         # names of mutated reference params ('self' included), in order
        self.may_throw = False
        self.returns_self = False
        self.text = None
        self.loops = 0
        self.calls = set()        # cnames of user functions called
        self.src = None
        self.abstract = False
        self.done = False
        self.in_progress = False
        self.trivial_getter = None  # field name if body is 'return this->field'


class Unit:
    def __init__(self, tops, scalar='double'):
        self.tops = tops
        self.by_id = {}
        self.ctx_of = {}          # decl id -> (namespace path tuple, class Ty or None, dependent flag)
        self.records = {}         # canonical key -> record decl node
        self.rec_ctx = {}
        self.fn_by_id = {}
        self.fn_by_cname = {}
        self.type_defs = []       # emitted C type definitions in order
        self.type_done = {}
        self.shim_need = set()
        self.class_consts = {}    # (class key, name) -> node
        self.enum_types = set()   # qualified names of enumeration types (values are rendered as int: the enumerator's position)
        self._index()

    # ------------------------------------------------------------ indexing
    def _index(self):
        def tmpl_args(n):
            out = []
            for c in n.get('inner', []):
                if c.get('kind') == 'TemplateArgument':
                    out.append(self._targ(c))
            return out

        def walk(n, ns, cls, dep, parent_kind):
            k = n.get('kind')
            if not k or k.endswith('Comment'):
                return
            if 'id' in n and k.endswith('Decl'):
                prev = self.by_id.get(n['id'])
                # keep the definition (the one with a body / members) if seen twice
                if prev is None or len(n.get('inner', [])) >= len(prev.get('inner', [])):
                    self.by_id[n['id']] = n
                    self.ctx_of[n['id']] = (ns, cls, dep, parent_kind)
            if k == 'NamespaceDecl':
                for c in n.get('inner', []):
                    walk(c, ns + (n.get('name', ''),), cls, dep, k)
                return
            if k == 'EnumDecl' and n.get('name'):
                self.enum_types.add('::'.join(ns + ((cls.key(),) if cls else ()) + (n['name'],)))
            if k == 'ClassTemplateDecl':
                for c in n.get('inner', []):
                    if c.get('kind') == 'CXXRecordDecl':
                        walk(c, ns, cls, True, k)      # the pattern: dependent
                    else:
                        walk(c, ns, cls, dep, k)
                return
            if k == 'ClassTemplatePartialSpecializationDecl':
                return
            if k in ('ClassTemplateSpecializationDecl', 'CXXRecordDecl'):
                if n.get('isImplicit'):
                    return
                name = n.get('name')
                if not name:
                    return
                qual = '::'.join(ns + ((cls.key(),) if cls else ()) + (name,))
                args = self.norm_args(tmpl_args(n)) if k == 'ClassTemplateSpecializationDecl' else []
                ty = Ty('::'.join(ns + (name,)) if not cls else cls.key() + '::' + name, args)
                if not dep and n.get('completeDefinition'):
                    self.records[ty.key()] = n
                    self.rec_ctx[ty.key()] = ns
                for c in n.get('inner', []):
                    if c.get('kind') == 'VarDecl' and not dep:
                        self.class_consts[(ty.key(), c.get('name'))] = c
                    walk(c, ns, ty, dep, k)
                return
            if k == 'FunctionTemplateDecl':
                seen_pattern = False
                for c in n.get('inner', []):
                    if c.get('kind') in FUNC_KINDS:
                        has_args = any(x.get('kind') == 'TemplateArgument' for x in c.get('inner', []))
                        if not has_args:
                            walk(c, ns, cls, True, k)
                        else:
                            walk(c, ns, cls, dep, k)
                    else:
                        walk(c, ns, cls, dep, k)
                return
            if k in FUNC_KINDS:
                # do not descend: local decls are indexed lazily by the translator
                self._index_locals(n)
                return
            for c in n.get('inner', []):
                walk(c, ns, cls, dep, k)

        self.tmpl_ns = {}

        def pre(n, ns):
            k = n.get('kind')
            if k == 'NamespaceDecl':
                for c in n.get('inner', []):
                    pre(c, ns + (n.get('name', ''),))
            elif k == 'ClassTemplateDecl':
                self.tmpl_ns.setdefault(n.get('name'), ns)
        for t in self.tops:
            pre(t, ())
        for t in self.tops:
            if t.get('kind') == 'ClassTemplateSpecializationDecl' and t.get('name') in self.tmpl_ns:
                walk(t, self.tmpl_ns[t['name']], None, False, None)
            else:
                walk(t, (), None, False, None)

    def _index_locals(self, n):
        for c in n.get('inner', []):
            if isinstance(c, dict):
                if 'id' in c and c.get('kind', '').endswith('Decl'):
                    self.by_id.setdefault(c['id'], c)
                self._index_locals(c)

    def _targ(self, c):
        if 'value' in c:
            if str(c['value']) in ('true', 'false'):
                return Ty('true' if str(c['value']) == 'true' else 'false')
            return int(c['value'])
        if 'type' in c:
            return self.canon(parse_type(qt(c)))
        if 'decl' in c:
            return Ty(c['decl'].get('name', '?'))
        ks = kids(c)
        if ks:
            v = self.const_eval(ks[0])
            if v is not None:
                return v
            # enum constant
            s = strip(ks[0])
            if s.get('kind') == 'DeclRefExpr':
                return Ty(s['referencedDecl']['name'])
        raise ExtractionError('template argument %s' % json.dumps(c)[:200])

    # ------------------------------------------------------------ constants
    def const_eval(self, n, cls=None):
        n0 = n
        k = n.get('kind')
        if k == 'ConstantExpr' and 'value' in n:
            try:
                return int(n['value'])
            except ValueError:
                return None
        if k == 'IntegerLiteral':
            return int(n['value'])
        if k == 'CXXBoolLiteralExpr':
            return 1 if n['value'] else 0
        ks = kids(n)
        if k in ('ImplicitCastExpr', 'ParenExpr', 'SubstNonTypeTemplateParmExpr', 'CXXStaticCastExpr',
                 'ConstantExpr', 'ExprWithCleanups', 'CXXFunctionalCastExpr', 'MaterializeTemporaryExpr'):
            if k in ('ImplicitCastExpr', 'CXXStaticCastExpr') and n.get('castKind') in ('IntegralToFloating',):
                return None
            return self.const_eval(ks[-1], cls) if ks else None
        if k == 'BinaryOperator':
            a, b = self.const_eval(ks[0], cls), self.const_eval(ks[1], cls)
            if a is None or b is None:
                return None
            op = n['opcode']
            try:
                return {'+': a + b, '-': a - b, '*': a * b, '/': a // b if b else None,
                        '%': a % b if b else None, '<': int(a < b), '>': int(a > b), '<=': int(a <= b),
                        '>=': int(a >= b), '==': int(a == b), '!=': int(a != b),
                        '&&': int(bool(a) and bool(b)), '||': int(bool(a) or bool(b))}[op]
            except KeyError:
                return None
        if k == 'UnaryOperator' and n.get('opcode') in ('-', '+') and ks:
            v = self.const_eval(ks[0], cls)
            return None if v is None else (-v if n['opcode'] == '-' else v)
        if k == 'ConditionalOperator':
            c = self.const_eval(ks[0], cls)
            if c is None:
                return None
            return self.const_eval(ks[1] if c else ks[2], cls)
        if k == 'DeclRefExpr':
            r = n['referencedDecl']
            if r.get('kind') == 'VarDecl':
                d = self.by_id.get(r['id'])
                if d is not None and (d.get('constexpr') or 'const' in (qt(d) or '')):
                    dk = kids(d)
                    if dk:
                        return self.const_eval(dk[-1], cls)
            return None
        if k == 'CallExpr':
            c = strip(ks[0])
            if c.get('kind') == 'DeclRefExpr' and c['referencedDecl'].get('name') in ('max', 'min') \
                    and c['referencedDecl']['id'] not in self.fn_ids():
                a, b = self.const_eval(ks[1], cls), self.const_eval(ks[2], cls)
                if a is None or b is None:
                    return None
                return max(a, b) if c['referencedDecl']['name'] == 'max' else min(a, b)
            # constexpr static member function (outputOrder)
            if c.get('kind') == 'DeclRefExpr' and c['referencedDecl'].get('kind') == 'CXXMethodDecl':
                d = self.by_id.get(c['referencedDecl']['id'])
                if d is not None and d.get('constexpr'):
                    return self._eval_constexpr_fn(d, [self.const_eval(a, cls) for a in ks[1:]])
            return None
        return None

    def _eval_constexpr_fn(self, d, args):
        if any(a is None for a in args):
            return None
        params = [c for c in kids(d) if c['kind'] == 'ParmVarDecl']
        body = [c for c in kids(d) if c['kind'] == 'CompoundStmt']
        if not body:
            return None
        st = kids(body[0])
        if len(st) != 1 or st[0]['kind'] != 'ReturnStmt':
            return None
        env = {p['id']: a for p, a in zip(params, args)}
        return self._ce_env(kids(st[0])[0], env)

    def _ce_env(self, n, env):
        k = n.get('kind')
        ks = kids(n)
        if k == 'DeclRefExpr' and n['referencedDecl']['id'] in env:
            return env[n['referencedDecl']['id']]
        if k in ('ImplicitCastExpr', 'ParenExpr', 'SubstNonTypeTemplateParmExpr', 'ConstantExpr',
                 'ExprWithCleanups', 'MaterializeTemporaryExpr') and not (k == 'ConstantExpr' and 'value' in n):
            return self._ce_env(ks[-1], env)
        if k == 'BinaryOperator':
            a, b = self._ce_env(ks[0], env), self._ce_env(ks[1], env)
            if a is None or b is None:
                return None
            return {'+': a + b, '-': a - b, '*': a * b}.get(n['opcode'])
        if k == 'CallExpr':
            c = strip(ks[0])
            if c.get('kind') == 'DeclRefExpr':
                nm = c['referencedDecl'].get('name')
                args = [self._ce_env(a, env) for a in ks[1:]]
                if any(a is None for a in args):
                    return None
                if c['referencedDecl']['id'] not in self.fn_ids() and nm in ('max', 'min'):
                    return max(args) if nm == 'max' else min(args)
                d = self.by_id.get(c['referencedDecl']['id'])
                if d is not None and d.get('constexpr'):
                    return self._eval_constexpr_fn(d, args)
            return None
        return self.const_eval(n)

    _fnids = None

    def fn_ids(self):
        if self._fnids is None:
            self._fnids = {i for i, d in self.by_id.items() if d.get('kind') in FUNC_KINDS}
        return self._fnids

    # ------------------------------------------------------------ types
    def canon(self, t, cls=None):
        """canonicalise a parsed type: aliases, class-local names"""
        name = t.name
        if name in ('size_t', 'std::size_t'):
            name = 'unsigned long'
        if name.endswith('::AbsoluteIndex') or name.endswith('::RelativeIndex') or name.endswith('::size_type'):
            name = 'unsigned long'
        if name in ('RelativeIndex', 'AbsoluteIndex'):
            name = 'unsigned long'
        if name.endswith('::difference_type'):
            name = 'long'
        if name.endswith('::value_type') and name.startswith('std::array<double'):
            name = 'double'
        if name.endswith('::const_iterator') and ('Grid<double>' in name or 'Support<double>' in name
                                                    or name.startswith('std::vector<double>')):
            return Ty('__gnu_cxx::__normal_iterator',
                      [Ty('double', const=True, ptr=1), Ty('std::vector', [Ty('double')])], t.const, t.ref, t.ptr)
        args = []
        for a in t.args:
            args.append(self.canon(a, cls) if isinstance(a, Ty) else a)
        if name in ('std::__shared_ptr_access', 'std::__shared_ptr'):
            return Ty('std::shared_ptr', args[:1], t.const, t.ref, t.ptr)
        args = self.norm_args(args)
        # unqualified library names
        short = name.split('::')[-1]
        if '::' not in name or name.startswith('bspline::') or name.startswith('support::') \
                or name.startswith('operators::') or name.startswith('integration::') \
                or name.startswith('internal::') or name.startswith('interpolation::'):
            for key in self.records:
                kt = key.split('<')[0]
                if kt.split('::')[-1] == short and kt.startswith('bspline'):
                    name = kt
                    break
        return Ty(name, args, t.const, t.ref, t.ptr)

    @staticmethod
    def norm_args(args):
        """enable_if guards (a trailing bool 'true', printed as true or as the 1-bit value -1) are dropped; the
        AdditionOperation enumerators become their values"""
        out = []
        for a in args:
            if isinstance(a, Ty) and a.name.split('::')[-1] == 'ADDITION':
                a = 0
            elif isinstance(a, Ty) and a.name.split('::')[-1] == 'SUBTRACTION':
                a = 1
            out.append(a)
        while out and ((isinstance(out[-1], Ty) and out[-1].name == 'true') or (isinstance(out[-1], int) and out[-1] == -1)):
            out.pop()
        return out

    def ty_of(self, n, cls=None):
        s = qt(n)
        if s is None:
            raise ExtractionError('node without type: %s' % n.get('kind'))
        return self.canon(parse_type(s), cls)

    def mangle(self, t):
        if isinstance(t, int):
            return str(t)
        if t.ptr:
            raise ExtractionError('pointer type %r' % t)
        n = t.name
        if n in BUILTIN:
            return {'size_t': 'size', '_Bool': 'bool', 'T': 'T', 'long': 'long', 'int': 'int',
                    'unsigned int': 'uint', 'void': 'void', 'char': 'char'}[BUILTIN[n]]
        short = n.split('::')[-1]
        if n == 'std::array':
            return 'arr_%s_%s' % (self.mangle(t.args[0]), t.args[1])
        if n == 'std::vector':
            return 'vec_%s' % self.mangle(t.args[0])
        if n == 'std::optional':
            return 'opt_%s' % self.mangle(t.args[0])
        if n == 'std::shared_ptr':
            return 'sp_%s' % self.mangle(t.args[0])
        if n == '__gnu_cxx::__normal_iterator':
            return 'it_%s' % self.mangle(t.args[1])
        if n == 'std::reverse_iterator':
            return 'rit'
        if n.startswith('std::') or n.startswith('__gnu_cxx::'):
            raise ExtractionError('unsupported std type %r' % t)
        args = list(t.args)
        if short in DROP_T and args and isinstance(args[0], Ty) and args[0].name == 'double':
            args = args[1:]
        out = short
        for a in args:
            m = self.mangle(a)
            if m not in ('true', 'false', '-1'):      # enable_if guards (bool true is printed as the 1-bit value -1)
                out += '_' + m
        return out

    def cty(self, t):
        """C spelling of a (value) type; registers the definition it needs"""
        n = t.name
        if t.ptr:
            raise ExtractionError('pointer type %r' % t)
        if n in BUILTIN:
            return BUILTIN[n]
        if n in self.enum_types and not t.args:
            return 'int'
        m = self.mangle(t)
        if m not in self.type_done:
            self.type_done[m] = None      # guards recursion
            try:
                self._define(t, m)
            except ExtractionError:
                del self.type_done[m]     # (a failed definition must fail again the next time it is asked for)
                raise
        return 'struct ' + m

    def _define(self, t, m):
        n = t.name
        if n == 'std::array':
            el = self.cty(t.args[0])
            self.type_defs.append('struct %s { %s c[%d]; };' % (m, el, max(1, t.args[1])))
            self.type_done[m] = ('array', t.args[0], t.args[1])
        elif n == 'std::vector':
            el = self.cty(t.args[0])
            self.type_defs.append('struct %s { size_t n; %s d[BS_CAP]; };' % (m, el))
            self.type_done[m] = ('vector', t.args[0])
        elif n == 'std::optional':
            el = self.cty(t.args[0])
            self.type_defs.append('struct %s { _Bool has; %s v; };' % (m, el))
            self.type_done[m] = ('optional', t.args[0])
        elif n == 'std::shared_ptr':
            # only shared_ptr<const vector<T>>: a handle into the ghost heap of grid vectors
            if not (isinstance(t.args[0], Ty) and t.args[0].name == 'std::vector'):
                raise ExtractionError('unsupported shared_ptr %r' % t)
            self.cty(t.args[0])
            self.type_defs.append('struct %s { size_t id; };' % m)
            self.type_done[m] = ('shared_ptr', t.args[0])
        elif n == '__gnu_cxx::__normal_iterator':
            self.type_defs.append('struct %s { size_t gid; size_t pos; };' % m)
            self.type_done[m] = ('iterator', t.args[1])
        else:
            rec = self.records.get(t.key())
            if rec is None:
                raise ExtractionError('no complete definition for record type %s (have %s...)' %
                                      (t.key(), list(self.records)[:5]))
            fields = []
            for c in kids(rec):
                if c['kind'] == 'FieldDecl':
                    ft = self.canon(parse_type(self._field_type(c, t)), t)
                    if ft.ref or ft.ptr:
                        raise ExtractionError('record %s: member %s is a reference or pointer: storage shared between objects '
                                              'cannot be rendered by value' % (t.key(), c['name']))
                    if c.get('mutable'):
                        raise ExtractionError('record %s: member %s is mutable: hidden state cannot be rendered by value' % (t.key(), c['name']))
                    fields.append('%s %s;' % (self.cty(ft), c['name']))
                if c['kind'] == 'CXXRecordDecl' and c.get('name') == rec.get('name'):
                    continue
            # (bases without data members: the Operator tag class, and the pure interface ISolver of the abstract solver)
            if any(b for b in rec.get('bases', []) if 'Operator' not in b['type']['qualType']
                   and not ('ISolver<' in b['type']['qualType'] and t.name.startswith('bspline_verif_abs::'))):
                raise ExtractionError('record %s has unexpected bases' % t.key())
            if not fields:
                fields = ['char bs_empty;']
            self.type_defs.append('struct %s { %s };' % (m, ' '.join(fields)))
            self.type_done[m] = ('record', [c['name'] for c in kids(rec) if c['kind'] == 'FieldDecl'])

    def _field_type(self, fdecl, cls):
        s = qt(fdecl)
        # resolve class-level constants used as template arguments (ARRAY_SIZE)
        def repl(mo):
            nm = mo.group(0)
            c = self.class_consts.get((cls.key(), nm))
            if c is not None:
                v = self.const_eval(kids(c)[-1]) if kids(c) else None
                if v is not None:
                    return str(v)
            return nm
        return re.sub(r'\b[A-Z][A-Z_0-9]+\b', repl, s)

    def resolve_consts(self, s, cls):
        if cls is None:
            return s
        def repl(mo):
            nm = mo.group(0)
            c = self.class_consts.get((cls.key(), nm))
            if c is not None and kids(c):
                v = self.const_eval(kids(c)[-1])
                if v is not None:
                    return str(v)
            return nm
        return re.sub(r'\b[A-Z][A-Z_0-9]+\b', repl, s)

    # ------------------------------------------------------------ functions
    def functions(self):
        """all instantiated (non-dependent) function decls with a body"""
        out = []
        for i, d in self.by_id.items():
            if d.get('kind') in FUNC_KINDS and i in self.ctx_of:
                ns, cls, dep, pk = self.ctx_of[i]
                if dep:
                    continue
                if not any(c.get('kind') == 'CompoundStmt' for c in d.get('inner', [])):
                    # declared-only members of the driver's abstract operator classes: abstract callees
                    if 'bspline_verif_abs' in ns and d.get('name') == 'transform' and pk == 'FunctionTemplateDecl':
                        d['_abstract'] = True
                        out.append(d)
                    elif 'bspline_verif_abs' in ns and cls is not None and not d.get('isImplicit') and \
                            d.get('kind') in ('CXXMethodDecl', 'CXXConstructorDecl') and not d.get('explicitlyDefaulted'):
                        # declared-only members of the driver's abstract classes (the linear solver of interpolate)
                        d['_abstract'] = True
                        out.append(d)
                    continue
                out.append(d)
        return out

    def fn_cname(self, d):
        ns, cls, dep, pk = self.ctx_of[d['id']]
        name = d['name']
        base = OPNAMES.get(name, name)
        params = [c for c in kids(d) if c['kind'] == 'ParmVarDecl']
        if name == 'operator-' and ((cls and not params) or (not cls and len(params) == 1)):
            base = 'op_neg'
        targs = [self._targ(c) for c in d.get('inner', []) if c.get('kind') == 'TemplateArgument']
        if d['kind'] == 'CXXConstructorDecl':
            base = 'ctor'
        pre = self.mangle(cls) + '__' if cls else ''
        if not cls and ns[-1:] and ns[-1] in ('internal',):
            pre = ''
        nm = pre + base
        if d['kind'] == 'CXXConstructorDecl':
            for p in params:
                nm += '_' + self._pm(p, cls)
        else:
            for a in targs:
                m = self.mangle(a)
                if m not in ('T', 'true', 'false', '-1'):
                    nm += '_' + m
        return nm

    def _pm(self, p, cls):
        try:
            t = self.canon(parse_type(self.resolve_consts(qt(p), cls)), cls)
            m = self.mangle(t.base())
            if t.ref == '&&':
                m += '_rv'
            return m
        except ExtractionError:
            return 'x'

    def assign_names(self):
        names = {}
        for d in self.functions():
            try:
                nm = self.fn_cname(d)
            except ExtractionError as e:
                continue
            names.setdefault(nm, []).append(d)
        for nm, ds in names.items():
            if len(ds) == 1 and not self._declared_overloaded(ds[0]):
                self._reg(ds[0], nm)
            else:
                # overloads: disambiguate by parameter types
                used = set()
                for d in ds:
                    ns, cls, dep, pk = self.ctx_of[d['id']]
                    params = [c for c in kids(d) if c['kind'] == 'ParmVarDecl']
                    n2 = nm + ''.join('_' + self._pm(p, cls) for p in params) if params else nm + '_0'
                    if n2 in used:
                        raise ExtractionError('ambiguous C name %s' % n2)
                    used.add(n2)
                    self._reg(d, n2)

    def _declared_overloaded(self, d):
        """True if the class declares several member functions of this name (whether or not all of them are
        instantiated): the C name then always carries the parameter types, so that names do not depend on
        which overloads happen to be used"""
        ns, cls, dep, pk = self.ctx_of[d['id']]
        if cls is None or d['kind'] != 'CXXMethodDecl' or d['name'].startswith('operator'):
            return False
        rec = self.records.get(cls.key())
        if rec is None:
            return False
        n = 0
        for c in kids(rec):
            if c['kind'] == 'CXXMethodDecl' and c.get('name') == d['name']:
                n += 1
            elif c['kind'] == 'FunctionTemplateDecl' and c.get('name') == d['name']:
                n += 1
        return n > 1

    def _reg(self, d, nm):
        fi = FnInfo(d, nm)
        self.fn_by_id[d['id']] = fi
        self.fn_by_cname[nm] = fi
        ns, cls, dep, pk = self.ctx_of[d['id']]
        fi.cls = cls
        loc = d.get('loc', {})
        rng = d.get('range', {})
        fi.src = (loc.get('file') or rng.get('begin', {}).get('file'), rng.get('begin', {}).get('line') or loc.get('line'),
                  rng.get('end', {}).get('line'))


# =====================================================================
#  function translation
# =====================================================================

class Cap:
    """captures emitted lines (used for short-circuit operands)"""
    def __init__(self, tr):
        self.tr = tr

    def __enter__(self):
        self.saved = self.tr.out
        self.tr.out = []
        return self

    def __exit__(self, *a):
        self.lines = self.tr.out
        self.tr.out = self.saved


class FnTr:
    def __init__(self, unit, fi, contracts=None):
        self.u = unit
        self.fi = fi
        self.d = fi.decl
        self.out = []
        self.ind = 1
        self.tmp = 0
        self.alias = {}           # var decl id -> C lvalue text
        self.alias_deps = {}      # var decl id -> set of root names it depends on
        self.live = []            # stack of lists of alias ids per scope
        self.writes = set()       # root names written
        self.loop_no = 0
        self.contracts = contracts or {}
        self.cls = fi.cls
        self.local_names = {}

    # ---------------------------------------------------------- helpers
    def emit(self, s):
        self.out.append('  ' * self.ind + s)

    def newtmp(self, pre='bs_t'):
        self.tmp += 1
        return '%s%d' % (pre, self.tmp)

    def rc(self, s):
        """names that are local to the function body (type aliases, constexpr integers) and class constants written out"""
        ls = getattr(self, 'local_subst', None)
        if ls:
            s = re.sub(r'(?<![:\w])(%s)\b' % '|'.join(map(re.escape, ls)), lambda m: ls[m.group(1)], s)
        return self.u.resolve_consts(s, self.cls)

    def ty(self, n):
        s = qt(n)
        if s is None:
            raise ExtractionError('untyped node %s' % n.get('kind'))
        return self.u.canon(parse_type(self.rc(s)), self.cls)

    def cty(self, n_or_ty):
        t = n_or_ty if isinstance(n_or_ty, Ty) else self.ty(n_or_ty)
        return self.u.cty(t.base())

    def note_write(self, lv):
        root = re.match(r'[A-Za-z_][A-Za-z_0-9]*', lv)
        if root:
            r = root.group(0)
            if r == 'self' and self.fi.is_method and self.fi.is_const and not self.fi.is_ctor:
                raise ExtractionError('%s: a const member function writes to its object (mutable member): hidden state '
                                      'cannot be rendered by value' % self.fi.cname)
            self.writes.add(r)
            for vid, deps in self.alias_deps.items():
                if r in deps and any(vid in sc for sc in self.live):
                    raise ExtractionError('%s: write to %s while a reference depending on it is live'
                                          % (self.fi.cname, r))

    def exc_return(self):
        fi = self.fi
        if fi.rkind == 'void':
            return 'return;'
        if fi.rkind in ('self', 'ctor'):
            return 'return self;'
        if fi.rkind == 'struct':
            return '{ struct R_%s bs_r; %s return bs_r; }' % (
                fi.cname, ' '.join('bs_r.%s = %s;' % (m, m) for m in fi.mutated))
        return 'return bs_dummy;'

    def check_exc(self):
        self.emit('if (bs_exc) ' + self.exc_return())

    # ---------------------------------------------------------- signature
    def setup(self):
        fi, d, u = self.fi, self.d, self.u
        fi.is_method = d['kind'] in ('CXXMethodDecl', 'CXXConstructorDecl')
        fi.is_ctor = d['kind'] == 'CXXConstructorDecl'
        fi.is_static = d.get('storageClass') == 'static'
        rs, ps, quals = split_fn_type(d['type']['qualType'])
        fi.is_const = bool(re.search(r'\bconst\b', quals))
        fi.params = []
        for p in kids(d):
            if p['kind'] == 'ParmVarDecl':
                t = self.ty(p)
                nm = p.get('name') or 'arg%d' % len(fi.params)
                fi.params.append((nm, t, p['id']))
        if fi.is_ctor:
            fi.ret = fi.cls
        else:
            rsr = self.rc(rs)
            local_aliases = set()
            for b in kids(d):
                if b['kind'] == 'CompoundStmt':
                    for st in kids(b):
                        if st['kind'] == 'DeclStmt':
                            local_aliases |= {v.get('name') for v in kids(st) if v['kind'] in ('TypeAliasDecl', 'TypedefDecl')}
            if rsr == 'auto' or 'auto' in rsr.split() or rsr.strip() in local_aliases:
                # (a deduced return type printed with a function-local alias name: taken from the return statement)
                fi.ret = None
                fi.ret_auto = True
            else:
                try:
                    rt = u.canon(parse_type(rsr), self.cls)
                    if rt.name != 'void':
                        u.cty(rt.base())      # (a deduced type printed with an alias local to another function does not resolve)
                    fi.ret = None if rt.name == 'void' else rt
                except ExtractionError:
                    # a return type spelled with an unevaluated constant expression (outputOrder(size - 1) + 1):
                    # taken from the first return statement instead, like a deduced return type
                    fi.ret = None
                    fi.ret_auto = True

    def decide_rkind(self):
        fi = self.fi
        muts = [m for m in fi.mutated]
        if fi.is_ctor:
            muts = [m for m in muts if m != 'self']
            fi.rkind = 'struct' if muts else 'ctor'
            if muts:
                fi.mutated = ['self'] + muts
            return
        if not muts:
            fi.rkind = 'void' if fi.ret is None else 'value'
        elif muts == ['self'] and (fi.ret is None or fi.returns_self):
            fi.rkind = 'self'
        else:
            fi.rkind = 'struct'

    def signature(self):
        fi = self.fi
        ps = []
        if fi.is_method and not fi.is_static and not fi.is_ctor:
            ps.append('%s self' % self.u.cty(fi.cls))
        for nm, t, pid in fi.params:
            ps.append('%s %s' % (self.u.cty(t.base()), nm))
        if fi.rkind == 'void':
            r = 'void'
        elif fi.rkind in ('self', 'ctor'):
            r = self.u.cty(fi.cls)
        elif fi.rkind == 'struct':
            r = 'struct R_%s' % fi.cname
        else:
            r = self.u.cty(fi.ret.base())
        return '%s %s(%s)' % (r, fi.cname, ', '.join(ps) if ps else 'void')

    def rstruct_def(self):
        fi = self.fi
        if fi.rkind != 'struct':
            return None
        fs = []
        if fi.ret is not None and not fi.returns_self and not fi.is_ctor:
            fs.append('%s ret;' % self.u.cty(fi.ret.base()))
        for m in fi.mutated:
            if m == 'self':
                fs.append('%s self;' % self.u.cty(fi.cls))
            else:
                t = [t for nm, t, pid in fi.params if nm == m][0]
                fs.append('%s %s;' % (self.u.cty(t.base()), m))
        return 'struct R_%s { %s };' % (fi.cname, ' '.join(fs))

    # ---------------------------------------------------------- body
    def translate(self):
        fi, d = self.fi, self.d
        self.out = []
        self.tmp = 0
        self.loop_no = 0
        self.alias, self.alias_deps, self.live = {}, {}, [[]]
        self.writes = set()
        fi.calls = set()
        fi.may_throw_now = False
        body = [c for c in kids(d) if c['kind'] == 'CompoundStmt'][0]
        if fi.rkind == 'value':
            self.emit('%s bs_dummy;' % self.u.cty(fi.ret.base()))
        self.entry_pos = len(self.out)
        self.heap_regs = {}
        self.local_subst = {}
        if fi.is_ctor:
            self.emit('%s self;' % self.u.cty(fi.cls))
            for ci in [c for c in d.get('inner', []) if c.get('kind') == 'CXXCtorInitializer']:
                self.ctor_init(ci)
        self.block(body, braces=False)
        # fall-through return
        if fi.rkind in ('self', 'ctor'):
            self.emit('return self;')
        elif fi.rkind == 'struct':
            self.emit(self.exc_return())
        fi.loops = self.loop_no
        return self.out

    def ctor_init(self, ci):
        ks = kids(ci)
        if 'anyInit' in ci:
            f = ci['anyInit']['name']
            ft = self.u.canon(parse_type(self.rc(qt(ci['anyInit']))), self.cls)
            if not ks:
                return
            v = self.init_value(ks[0], ft)
            if v is not None:
                self.emit('self.%s = %s;' % (f, v))
        elif 'delegatingInit' in ci or 'baseInit' in ci:
            if 'baseInit' in ci:
                return  # empty Operator base / std::exception
            v = self.expr(ks[0])
            self.emit('self = %s;' % v)
        else:
            raise ExtractionError('ctor initializer %s' % list(ci.keys()))

    def init_value(self, n, t):
        """value of an initialiser expression for an object of type t (None: leave uninitialised)"""
        s = strip(n)
        if s['kind'] == 'InitListExpr' and not t.name.startswith('std::') and t.name in \
                ('unsigned long', 'double', 'int', 'long', 'bool'):
            ks = kids(s)
            return self.expr(ks[0]) if ks else '0'
        return self.expr(n)

    def block(self, n, braces=True):
        if braces:
            self.emit('{')
            self.ind += 1
        self.body_start()
        self.live.append([])
        for s in kids(n):
            self.stmt(s)
        for vid in self.live.pop():
            self.alias.pop(vid, None)
            self.alias_deps.pop(vid, None)
        if braces:
            self.ind -= 1
            self.emit('}')

    def stmt_as_block(self, n):
        if n['kind'] == 'CompoundStmt':
            self.block(n)
        else:
            self.emit('{')
            self.ind += 1
            self.body_start()
            self.live.append([])
            self.stmt(n)
            for vid in self.live.pop():
                self.alias.pop(vid, None)
                self.alias_deps.pop(vid, None)
            self.ind -= 1
            self.emit('}')

    def loop_contract(self):
        # clauses starting with '@@' are ghost statements for the start of the loop body (instances of quantified
        # preconditions, bin/bsv.py 'axiom'); they are emitted by the next block that opens
        self.loop_no += 1
        lc = self.contracts.get('loop%d' % self.loop_no) or []
        self.pending_body_start = [c[2:] for c in lc if c.startswith('@@')]
        return [c for c in lc if not c.startswith('@@')]

    def body_start(self):
        for c in getattr(self, 'pending_body_start', None) or []:
            self.emit(c)
        self.pending_body_start = []

    def stmt(self, n):
        k = n['kind']
        ks = kids(n)
        if k == 'CompoundStmt':
            self.block(n)
        elif k == 'NullStmt':
            pass
        elif k == 'DoStmt':
            body, cond = ks[0], ks[1]
            if body['kind'] == 'CompoundStmt' and not kids(body) and self.u.const_eval(cond) == 0:
                return      # the disabled DURING_TEST_CHECK_VALIDITY macro
            if self.u.const_eval(cond) == 0:
                # do { ... } while(false): a plain block, executed once (macro with test checks on)
                self.stmt_as_block(body)
                return
            raise ExtractionError('do-while loop')
        elif k == 'DeclStmt':
            for v in ks:
                if v['kind'] == 'VarDecl':
                    self.vardecl(v)
                elif v['kind'] in ('TypeAliasDecl', 'TypedefDecl') and v['type'].get('desugaredQualType') and v.get('name'):
                    self.local_subst[v['name']] = v['type']['desugaredQualType']
                elif v['kind'] in ('StaticAssertDecl', 'TypeAliasDecl', 'TypedefDecl', 'UsingDirectiveDecl'):
                    pass
                else:
                    raise ExtractionError('DeclStmt child %s' % v['kind'])
        elif k == 'ReturnStmt':
            self.ret_stmt(ks[0] if ks else None)
        elif k == 'IfStmt':
            self.if_stmt(n)
        elif k == 'ForStmt':
            self.for_stmt(n)
        elif k == 'WhileStmt':
            self.while_stmt(n)
        elif k == 'CXXForRangeStmt':
            self.range_for(n)
        elif k == 'BreakStmt':
            self.emit('break;')
        elif k == 'ContinueStmt':
            self.emit('continue;')
        else:
            # expression statement
            e = self.expr(n, discard=True)
            if e:
                self.emit(e + ';')

    def ret_stmt(self, e):
        fi = self.fi
        if e is None:
            self.emit(self.exc_return() if fi.rkind != 'void' else 'return;')
            return
        s = strip(e)
        if fi.ret is not None and fi.ret.ref == '&' and not fi.ret.const and fi.is_method and not fi.is_static \
                and s['kind'] == 'UnaryOperator' and s.get('opcode') == '*' and strip(kids(s)[0])['kind'] == 'CXXThisExpr':
            fi.returns_self = True
            if fi.rkind == 'self':
                self.emit('return self;')
            elif fi.rkind == 'struct':
                self.emit(self.exc_return())
            else:
                self.emit('return self;')
            return
        if getattr(fi, 'ret_auto', False) and fi.ret is None:
            fi.ret = self.ty(e)
            fi.ret.ref = ''
            raise Retry()
        v = self.expr(e)
        if fi.rkind == 'value':
            self.emit('return %s;' % v)
        elif fi.rkind == 'struct':
            self.emit('{ struct R_%s bs_r; bs_r.ret = %s; %s return bs_r; }' % (
                fi.cname, v, ' '.join('bs_r.%s = %s;' % (m, m) for m in fi.mutated)))
        elif fi.rkind == 'void':
            self.emit('%s; return;' % v)
        else:
            raise ExtractionError('%s: return of a value in state-passing function' % fi.cname)

    def if_stmt(self, n):
        ks = kids(n)
        if n.get('hasInit') or n.get('hasVar'):
            raise ExtractionError('if with init/var')
        cond = ks[0]
        cv = self.u.const_eval(cond) if n.get('isConstexpr') else None
        if cv is not None:
            taken = ks[1] if cv else (ks[2] if len(ks) > 2 else None)
            if taken is not None:
                self.stmt_as_block(taken)
            return
        c = self.expr(cond)
        self.emit('if (%s)' % c)
        self.stmt_as_block(ks[1])
        if len(ks) > 2:
            self.emit('else')
            self.stmt_as_block(ks[2])

    def for_stmt(self, n):
        raw = n.get('inner', [])
        # ForStmt children: init, condvar, cond, inc, body ({} for absent)
        init, condvar, cond, inc, body = raw
        self.emit('{')
        self.ind += 1
        self.live.append([])
        if init.get('kind'):
            self.stmt(init)
        with Cap(self) as c1:
            ce = self.expr(cond) if cond.get('kind') else '1'
        if c1.lines:
            raise ExtractionError('%s: loop condition needs hoisting' % self.fi.cname)
        with Cap(self) as c2:
            self.in_for_inc = True
            try:
                ie = self.expr(inc) if inc.get('kind') else ''
            finally:
                self.in_for_inc = False
        if c2.lines:
            raise ExtractionError('%s: loop increment needs hoisting' % self.fi.cname)
        self.emit('for (; %s; %s)' % (ce, ie))
        for cl in self.loop_contract():
            self.emit('  ' + cl)
        self.stmt_as_block(body)
        for vid in self.live.pop():
            self.alias.pop(vid, None)
            self.alias_deps.pop(vid, None)
        self.ind -= 1
        self.emit('}')

    def while_stmt(self, n):
        ks = kids(n)
        with Cap(self) as c1:
            ce = self.expr(ks[0])
        if c1.lines:
            raise ExtractionError('%s: loop condition needs hoisting' % self.fi.cname)
        self.emit('while (%s)' % ce)
        for cl in self.loop_contract():
            self.emit('  ' + cl)
        self.stmt_as_block(ks[1])

    def range_for(self, n):
        raw = n.get('inner', [])
        ks = [c for c in raw if c.get('kind')]
        rangedecl = kids(ks[0])[0]
        loopvar = kids(ks[-2])[0]
        body = ks[-1]
        rexpr = kids(rangedecl)[0]
        rt = self.ty(rexpr)
        self.emit('{')
        self.ind += 1
        self.live.append([])
        try:
            with Cap(self) as c0:
                R = self.lval(rexpr)
            for l in c0.lines:
                self.out.append(l)
        except NotLvalue:
            R = self.newtmp('bs_range')
            self.emit('%s %s = %s;' % (self.cty(rt), R, self.expr(rexpr)))
        iv = self.newtmp('bs_i')
        if rt.name == 'std::vector':
            size, elem = '%s.n' % R, '%s.d[%s]' % (R, iv)
        elif rt.name == 'std::array':
            size, elem = str(rt.args[1]), '%s.c[%s]' % (R, iv)
        else:
            raise ExtractionError('range-for over %r' % rt)
        self.emit('size_t %s = 0;' % iv)
        self.emit('for (; %s < %s; %s++)' % (iv, size, iv))
        for cl in self.loop_contract():
            self.emit('  ' + cl.replace('$i', iv))
        self.emit('{')
        self.ind += 1
        self.pending_body_start = [c.replace('$i', iv) for c in self.pending_body_start]
        self.body_start()
        self.live.append([])
        lvt = parse_type(qt(loopvar))
        if lvt.ref:
            self.alias[loopvar['id']] = elem
            self.alias_deps[loopvar['id']] = set()
            self.live[-1].append(loopvar['id'])
        else:
            self.emit('%s %s = %s;' % (self.cty(self.ty(loopvar)), loopvar['name'], elem))
        if body['kind'] == 'CompoundStmt':
            for s in kids(body):
                self.stmt(s)
        else:
            self.stmt(body)
        for vid in self.live.pop():
            self.alias.pop(vid, None)
            self.alias_deps.pop(vid, None)
        self.ind -= 1
        self.emit('}')
        for vid in self.live.pop():
            self.alias.pop(vid, None)
            self.alias_deps.pop(vid, None)
        self.ind -= 1
        self.emit('}')

    def vardecl(self, v):
        ks = kids(v)
        name = v['name']
        rawt = parse_type(self.rc(v['type'].get('desugaredQualType') or v['type']['qualType'])) \
            if 'auto' not in v['type']['qualType'] or 'desugaredQualType' in v['type'] else None
        init = ks[-1] if ks else None
        if v.get('constexpr') and init is not None:
            cv = self.u.const_eval(init)
            if isinstance(cv, int):
                self.local_subst[name] = str(cv)
        is_ref = ('&' in v['type']['qualType'])
        if is_ref:
            if init is None:
                raise ExtractionError('reference without initialiser')
            qual = v['type'].get('desugaredQualType') or v['type']['qualType']
            is_const = bool(re.search(r'\bconst\b', qual))
            it = self.ty(init)
            if not is_const:
                lv = self.lval(init)
                self.alias[v['id']] = lv
                # the alias is a textual substitution: only the variables inside index brackets must stay fixed
                self.alias_deps[v['id']] = set(w for br in re.findall(r'\[([^\]]*)\]', lv)
                                               for w in re.findall(r'\b[A-Za-z_][A-Za-z_0-9]*\b(?!\s*[.\[(])', br))
                self.live[-1].append(v['id'])
                return
            # const reference: a value copy; the referent must not be written while it lives
            val = self.expr(init)
            self.emit('const %s %s = %s;' % (self.cty(it), name, val))
            # (a reference is bound once: later changes of the index expressions do not move it, so only the
            # containers outside the index brackets must stay unwritten)
            outer = val
            while re.search(r'\[[^\[\]]*\]', outer):
                outer = re.sub(r'\[[^\[\]]*\]', '', outer)
            self.alias_deps[v['id']] = set(re.findall(r'[A-Za-z_][A-Za-z_0-9]*', outer)) - {name}
            self.live[-1].append(v['id'])
            return
        t = self.ty(v) if rawt is not None else self.ty(init)
        ct = self.cty(t)
        if init is None:
            self.emit('%s %s;' % (ct, name))
            return
        val = self.init_value(init, t)
        if val is None:
            self.emit('%s %s;' % (ct, name))
        else:
            self.emit('%s %s = %s;' % (ct, name, val))


class NotLvalue(Exception):
    pass


class Retry(Exception):
    pass


INT_TYPES = ('unsigned long', 'long', 'int', 'unsigned int', 'bool', 'char')


def _expr_methods():
    pass


class ExprMixin:
    # ---------------------------------------------------------- lvalues
    def lval(self, n):
        s = strip(n)
        k = s['kind']
        ks = kids(s)
        if k == 'DeclRefExpr':
            r = s['referencedDecl']
            if r['kind'] in ('VarDecl', 'ParmVarDecl'):
                if r['id'] in self.alias:
                    return self.alias[r['id']]
                if r['id'] in getattr(self, 'lit_prov', {}):
                    return 'BS_LOCAL_IT(%s, %s)' % (self.lit_prov[r['id']], r['name'])
                for pn, pt, pid in self.fi.params:
                    if pid == r['id']:
                        return pn
                return r['name']
            raise NotLvalue()
        if k == 'MemberExpr':
            if s.get('type', {}).get('qualType') == '<bound member function type>':
                raise NotLvalue()
            return self.obj(ks[0], s.get('isArrow')) + '.' + s['name']
        if k == 'UnaryOperator' and s.get('opcode') == '*':
            c = strip(ks[0])
            if c['kind'] == 'CXXThisExpr':
                return 'self'
            raise NotLvalue()
        if k in ('ImplicitCastExpr', 'CXXStaticCastExpr') and len(ks) == 1 and s.get('castKind') in ('NoOp',):
            return self.lval(ks[0])
        if k == 'CallExpr':
            c = strip(ks[0])
            if c['kind'] == 'DeclRefExpr' and c['referencedDecl'].get('name') in ('move', 'forward') \
                    and c['referencedDecl']['id'] not in self.u.fn_by_id:
                return self.lval(ks[1])
            raise NotLvalue()
        if k == 'CXXOperatorCallExpr':
            c = strip(ks[0])
            op = c['referencedDecl']['name']
            if c['referencedDecl']['id'] in self.u.fn_by_id:
                fi2 = self.u.fn_by_id[c['referencedDecl']['id']]
                g = self.getter_path(fi2, ks[1], ks[2:])
                if g is not None:
                    return g
                raise NotLvalue()
            ot = self.ty(ks[1])
            if op == 'operator[]' and ot.name in ('std::vector', 'std::array'):
                return self.index(ks[1], ks[2], ot, 'operator[]')
            if op == 'operator*' and ot.name == 'std::optional':
                o = self.lval_or_tmp(ks[1])
                self.emit('__CPROVER_assert(%s.has, "[C09] optional::operator* on an engaged optional");' % o)
                return o + '.v'
            if op == 'operator*' and ot.name == 'std::shared_ptr':
                return self.sp_deref(ks[1])
            if op == 'operator*' and ot.name == '__gnu_cxx::__normal_iterator':
                return self.it_deref(ks[1])
            if op == 'operator*' and ot.name == 'std::reverse_iterator':
                return self.rit_deref(ks[1])
            raise NotLvalue()
        if k == 'CXXMemberCallExpr':
            callee = ks[0]
            mid = callee.get('referencedMemberDecl')
            objn = kids(callee)[0]
            name = callee['name']
            if mid in self.u.fn_by_id:
                fi2 = self.u.fn_by_id[mid]
                g = self.getter_path(fi2, objn, ks[1:], callee.get('isArrow'))
                if g is not None:
                    return g
                raise NotLvalue()
            ot = self.ty(objn)
            if callee.get('isArrow') and ot.ptr == 0:
                pass
            if ot.name in ('std::vector', 'std::array') or (callee.get('isArrow') and self.is_sp_arrow(objn)):
                if name in ('at', 'operator[]'):
                    return self.index(objn, ks[1], None, name, callee.get('isArrow'))
                if name in ('front', 'back'):
                    return self.front_back(objn, name, callee.get('isArrow'))
            if ot.name == 'std::optional' and name == 'value':
                o = self.lval_or_tmp(objn)
                self.emit('__CPROVER_assert(%s.has, "[C11] foreign exception std::bad_optional_access unreachable");' % o)
                return o + '.v'
            raise NotLvalue()
        raise NotLvalue()

    def abstract_put(self, n):
        """'f__put(obj, args, %s)' if n is a call of an abstract member that returns a non-const reference"""
        s = strip(n)
        if s['kind'] != 'CXXMemberCallExpr':
            return None
        ks = kids(s)
        callee = ks[0]
        mid = callee.get('referencedMemberDecl')
        if mid not in self.u.fn_by_id:
            return None
        fi2 = self.u.fn_by_id[mid]
        if not fi2.done:
            self.u.get_info(fi2)
        pf = getattr(fi2, 'put_fn', None)
        if pf is None:
            return None
        obj = self.obj(kids(callee)[0], callee.get('isArrow'))
        args = [self.expr(a) for a in ks[1:]]
        self.fi.calls.add(pf.cname)
        return '%s(%s, %%s)' % (pf.cname, ', '.join([obj] + args))

    def lval_or_tmp(self, n):
        """an expression usable as the object of a field access"""
        try:
            return self.lval(n)
        except NotLvalue:
            t = self.newtmp()
            v = self.expr(n)
            self.emit('%s %s = %s;' % (self.cty(self.ty(n)), t, v))
            return t

    def is_sp_arrow(self, objn):
        s = strip(objn)
        if s['kind'] == 'CXXOperatorCallExpr':
            c = strip(kids(s)[0])
            return c.get('referencedDecl', {}).get('name') == 'operator->' and \
                self.ty(kids(s)[1]).name == 'std::shared_ptr'
        return False

    def sp_deref(self, spn):
        p = self.lval_or_tmp(spn)
        return 'BS_GRIDMEM[bs_spid(%s)]' % p

    def obj(self, objn, is_arrow=False):
        """C text for the object of a member access"""
        s = strip(objn)
        if s['kind'] == 'CXXThisExpr':
            return 'self'
        if is_arrow:
            if self.is_sp_arrow(objn):
                return self.sp_deref(kids(s)[1])
            if s['kind'] == 'CXXOperatorCallExpr' and strip(kids(s)[0]).get('referencedDecl', {}).get('name') == 'operator->' \
                    and self.ty(kids(s)[1]).name == '__gnu_cxx::__normal_iterator':
                return self.it_deref(kids(s)[1])
            raise ExtractionError('%s: -> on %s' % (self.fi.cname, s['kind']))
        return self.lval_or_tmp(objn)

    def vec_kind(self, t):
        if t.name == 'std::vector':
            return 'vector'
        if t.name == 'std::array':
            return 'array'
        return None

    def index(self, objn, idxn, ot, how, is_arrow=False):
        o = self.obj(objn, is_arrow)
        if is_arrow:
            kind, size = 'vector', None
        else:
            ot = self.ty(objn)
            kind = self.vec_kind(ot)
        i = self.expr(idxn)
        if kind == 'vector':
            return '%s.d[%s(%s, %s.n)]' % (o, 'bs_at' if how == 'at' else 'bs_idx', i, o)
        if kind == 'array':
            if how == 'at':
                return '%s.c[bs_at(%s, %dUL)]' % (o, i, ot.args[1])
            return '%s.c[%s]' % (o, i)
        raise ExtractionError('index on %r' % ot)

    def front_back(self, objn, name, is_arrow=False):
        o = self.obj(objn, is_arrow)
        ot = None if is_arrow else self.ty(objn)
        if is_arrow or ot.name == 'std::vector':
            return '%s.d[bs_idx(%s, %s.n)]' % (o, '0UL' if name == 'front' else '%s.n - 1UL' % o, o)
        if ot.name == 'std::array':
            return '%s.c[%s]' % (o, '0' if name == 'front' else str(ot.args[1] - 1))
        raise ExtractionError('front/back on %r' % ot)

    def it_heap(self, t):
        """(heap array, number of slots) that iterators of type t point into: vectors of T live in the ghost heap of
        grid vectors, vectors of other element types in a heap of their own (declared with the vector type)"""
        vt = t.args[1]
        m = self.u.mangle(vt)
        if m == 'vec_T':
            return 'BS_GRIDMEM', 'BS_NG'
        self.u.cty(vt)
        if ('heap', m) not in self.u.type_done:
            self.u.type_done[('heap', m)] = True
            self.u.type_defs.append(
                'struct %s BS_HEAP_%s[BS_NH]; size_t BS_HEAP_%s_next;\n'
                'static inline size_t bs_heap_put_%s(struct %s v) { size_t id = BS_HEAP_%s_next; BS_CAPACITY(id < BS_NH); '
                'BS_HEAP_%s[id] = v; BS_HEAP_%s_next = id + 1; return id; }' % (m, m, m, m, m, m, m, m))
        return 'BS_HEAP_' + m, 'BS_NH'

    def it_deref(self, itn):
        it = self.lval_or_tmp(itn)
        H, N = self.it_heap(self.ty(itn))
        if H == 'BS_GRIDMEM':
            return 'BS_GRIDMEM[bs_gid(%s.gid)].d[bs_idx(%s.pos, BS_GRIDMEM[bs_gid(%s.gid)].n)]' % (it, it, it)
        return '%s[bs_hid(%s.gid)].d[bs_idx(%s.pos, %s[bs_hid(%s.gid)].n)]' % (H, it, it, H, it)

    def heap_reg(self, v, vt):
        """the heap slot that holds (a snapshot of) the const vector parameter v: registered once, on entry"""
        if v not in self.heap_regs:
            m = self.u.mangle(vt)
            g = 'bs_hid_' + re.sub(r'\W', '_', v)
            if m == 'vec_T':
                line = 'size_t %s = bs_make_shared_vec(%s).id;' % (g, v)
            else:
                self.it_heap(Ty('__gnu_cxx::__normal_iterator', [vt.args[0], vt]))
                line = 'size_t %s = bs_heap_put_%s(%s);' % (g, m, v)
            self.out.insert(self.entry_pos, '  ' + line)
            self.heap_regs[v] = g
        return self.heap_regs[v]

    def rit_deref(self, itn):
        s = strip(itn)
        if s['kind'] != 'DeclRefExpr' or s['referencedDecl']['id'] not in self.prov:
            raise ExtractionError('reverse iterator without provenance')
        cont, n = self.prov[s['referencedDecl']['id']]
        nm = s['referencedDecl']['name']
        self.emit('__CPROVER_assert(%s < %d, "[C09] reverse iterator dereference inside its range");' % (nm, n))
        return '%s.c[%d - 1 - %s]' % (cont, n, nm)

    def getter_path(self, fi2, objn, args, is_arrow=False):
        self.u.get_info(fi2)
        if fi2.trivial_getter is None or args:
            return None
        return self.obj(objn, is_arrow) + '.' + fi2.trivial_getter

    # ---------------------------------------------------------- rvalues
    def lit(self, v, t):
        if t.name == 'unsigned long':
            return '%dUL' % v
        if t.name == 'long':
            return '%dL' % v
        return str(v)

    def t_from(self, child):
        cv = self.u.const_eval(child)
        if cv is not None:
            return 'BS_TLIT(%d)' % cv if cv >= 0 else 'BS_TLIT_NEG(%d)' % (-cv)
        ct = self.ty(child)
        e = self.expr(child)
        if ct.name == 'unsigned long':
            return 'T_from_size(%s)' % e
        return 'T_from_int(%s)' % e

    def expr(self, n, discard=False):
        k = n['kind']
        ks = kids(n)
        if k == 'SubstNonTypeTemplateParmExpr':
            return self.expr(ks[-1], discard)
        if k in ('ExprWithCleanups', 'CXXBindTemporaryExpr', 'MaterializeTemporaryExpr'):
            return self.expr(ks[0], discard)
        if k == 'ConstantExpr':
            if 'value' in n and re.match(r'-?\d+$', str(n['value'])):
                return self.lit(int(n['value']), self.ty(n))
            return self.expr(ks[0], discard)
        if k == 'ParenExpr':
            return '(' + self.expr(ks[0]) + ')'
        if k == 'IntegerLiteral':
            return self.lit(int(n['value']), self.ty(n))
        if k == 'CXXBoolLiteralExpr':
            return '1' if n['value'] else '0'
        if k in ('ImplicitCastExpr', 'CXXStaticCastExpr', 'CXXFunctionalCastExpr', 'CStyleCastExpr'):
            ck = n.get('castKind')
            if ck in ('LValueToRValue', 'NoOp', 'FunctionToPointerDecay', 'ConstructorConversion',
                      'UserDefinedConversion', 'DerivedToBase', 'UncheckedDerivedToBase'):
                return self.expr(ks[-1], discard)
            if ck == 'IntegralCast':
                tt = self.ty(n)
                cv = self.u.const_eval(ks[-1])
                if cv is not None and cv >= 0:
                    return self.lit(cv, tt)
                return '((%s)%s)' % (self.cty(tt), self.wrap(self.expr(ks[-1])))
            if ck == 'IntegralToFloating':
                return self.t_from(ks[-1])
            if ck == 'IntegralToBoolean':
                return '(%s != 0)' % self.wrap(self.expr(ks[-1]))
            if ck == 'ToVoid':
                return self.expr(ks[-1], True)
            raise ExtractionError('%s: cast kind %s' % (self.fi.cname, ck))
        if k == 'UnaryOperator':
            op = n['opcode']
            if op == '-' and self.ty(n).name == 'double':
                # unary minus on the scalar type: a macro (plain -(a) by default), so that a block can hide it from
                # cbmc's simplifier, which aborts on some products of negated rationals (DESIGN.md W11)
                return 'BS_NEG(%s)' % self.expr(ks[0])
            if op in ('!', '-', '+', '~'):
                return '(%s%s)' % (op, self.wrap(self.expr(ks[0])))
            if op in ('++', '--'):
                s0 = strip(ks[0])
                if s0['kind'] == 'DeclRefExpr' and s0['referencedDecl']['id'] in getattr(self, 'prov', {}):
                    lv = s0['referencedDecl']['name']
                else:
                    lv = self.lval(ks[0])
                self.note_write(lv)
                return ('%s%s' % (lv, op)) if n.get('isPostfix') else ('%s%s' % (op, lv))
            if op == '*':
                return self.lval(n)
            raise ExtractionError('unary %s' % op)
        if k == 'BinaryOperator':
            op = n['opcode']
            if op == '=':
                put = self.abstract_put(ks[0])
                if put is not None:
                    rv = self.expr(ks[1])
                    txt = put % rv
                    if discard:
                        self.emit(txt + ';')
                        return ''
                    raise ExtractionError('%s: value of an assignment through an abstract accessor is used' % self.fi.cname)
                lv = self.lval(ks[0])
                rv = self.expr(ks[1])
                self.note_write(lv)
                if discard:
                    self.emit('%s = %s;' % (lv, rv))
                    return ''
                return '(%s = %s)' % (lv, rv)
            if op in ('&&', '||'):
                a = self.expr(ks[0])
                with Cap(self) as c:
                    b = self.expr(ks[1])
                if not c.lines:
                    return '(%s %s %s)' % (a, op, b)
                t = self.newtmp()
                self.emit('_Bool %s = %s;' % (t, a))
                self.emit('if (%s%s) {' % ('' if op == '&&' else '!', t))
                self.out.extend('  ' + l for l in c.lines)
                self.emit('  %s = %s;' % (t, b))
                self.emit('}')
                return t
            if op == ',':
                a = self.expr(ks[0], True)
                if a:
                    self.emit(a + ';')
                return self.expr(ks[1], discard)
            a = self.expr(ks[0])
            b = self.expr(ks[1])
            if op in ('*', '/') and self.ty(n).name == 'double':
                # scalar multiplication / division: a macro, so that a proof may hide them behind an
                # uninterpreted function (BS_OPAQUE_MUL); by default BS_MUL(a,b) is (a)*(b)
                return '%s(%s, %s)' % ('BS_MUL' if op == '*' else 'BS_DIV', a, b)
            return '(%s %s %s)' % (a, op, b)
        if k == 'CompoundAssignOperator':
            lv = self.lval(ks[0])
            rv = self.expr(ks[1])
            self.note_write(lv)
            op = n['opcode']
            # written out: CBMC's rational type has no compound assignment guarantee
            if op in ('*=', '/=') and self.ty(ks[0]).name == 'double':
                txt = '%s = %s(%s, %s)' % (lv, 'BS_MUL' if op == '*=' else 'BS_DIV', lv, rv)
            else:
                txt = '%s = %s %s %s' % (lv, lv, op[:-1], self.wrap(rv))
            if discard:
                self.emit(txt + ';')
                return ''
            return '(' + txt + ')'
        if k == 'ConditionalOperator':
            c = self.expr(ks[0])
            with Cap(self) as c1:
                a = self.expr(ks[1])
            with Cap(self) as c2:
                b = self.expr(ks[2])
            if not c1.lines and not c2.lines:
                return '(%s ? %s : %s)' % (c, a, b)
            t = self.newtmp()
            self.emit('%s %s;' % (self.cty(self.ty(n)), t))
            self.emit('if (%s) {' % c)
            self.out.extend('  ' + l for l in c1.lines)
            self.emit('  %s = %s;' % (t, a))
            self.emit('} else {')
            self.out.extend('  ' + l for l in c2.lines)
            self.emit('  %s = %s;' % (t, b))
            self.emit('}')
            return t
        if k == 'DeclRefExpr':
            r = n['referencedDecl']
            if r['kind'] == 'EnumConstantDecl':
                return self.u.enum_const(r)
            if r['kind'] in ('VarDecl', 'ParmVarDecl'):
                d = self.u.by_id.get(r['id'])
                if r['kind'] == 'VarDecl' and not self.is_local(r['id']):
                    if r.get('name') == 'nullopt':
                        return 'BS_NULLOPT'
                    cv = self.u.const_eval(n)
                    if cv is None:
                        raise ExtractionError('%s: non-constant global %s' % (self.fi.cname, r.get('name')))
                    return self.lit(cv, self.ty(n))
                return self.lval(n)
            raise ExtractionError('DeclRefExpr to %s' % r['kind'])
        if k == 'MemberExpr':
            return self.lval(n)
        if k in ('CallExpr', 'CXXMemberCallExpr', 'CXXOperatorCallExpr'):
            return self.call(n, discard)
        if k in ('CXXConstructExpr', 'CXXTemporaryObjectExpr'):
            return self.construct(n)
        if k == 'InitListExpr':
            return self.init_list(n)
        if k == 'CXXThrowExpr':
            s = strip(ks[0])
            a0 = strip(kids(s)[0])
            if a0['kind'] != 'DeclRefExpr' or a0['referencedDecl']['kind'] != 'EnumConstantDecl':
                raise ExtractionError('throw of something that is not BSplineException(code)')
            if 'BSplineException' not in qt(s):
                raise ExtractionError('throw of %s' % qt(s))
            self.emit('bs_exc = 1 + %s;' % self.u.enum_const(a0['referencedDecl']))
            self.emit(self.exc_return())
            self.fi.may_throw_now = True
            return ''
        if k == 'CXXDefaultArgExpr':
            raise ExtractionError('default argument outside a call')
        if k == 'CXXThisExpr':
            raise ExtractionError('bare this')
        raise ExtractionError('%s: expression kind %s' % (self.fi.cname, k))

    def wrap(self, e):
        if re.match(r'^[A-Za-z_0-9.\[\]]+$', e) or (e.startswith('(') and e.endswith(')')):
            return e
        return '(' + e + ')'

    def is_local(self, vid):
        return vid in self.locals

    def init_list(self, n):
        t = self.ty(n)
        ks = kids(n)
        if t.name == 'std::array':
            tmp = self.newtmp()
            self.emit('%s %s;' % (self.cty(t), tmp))
            elems = []
            if ks and strip(ks[0])['kind'] == 'InitListExpr':
                elems = kids(strip(ks[0]))
            else:
                elems = ks
            elems = [e for e in elems if e['kind'] != 'ImplicitValueInitExpr']
            et = t.args[0]
            for i in range(t.args[1]):
                if i < len(elems):
                    self.emit('%s.c[%d] = %s;' % (tmp, i, self.expr(elems[i])))
                else:
                    self.emit('%s.c[%d] = %s;' % (tmp, i, self.zero_of(et)))
            return tmp
        rec = self.u.records.get(t.key())
        if rec is not None:
            # aggregate initialisation of a library struct (interpolation::Boundary)
            tmp = self.newtmp()
            self.emit('%s %s;' % (self.cty(t), tmp))
            fields = [c for c in kids(rec) if c['kind'] == 'FieldDecl']
            for f, e in zip(fields, ks):
                if e['kind'] == 'CXXDefaultInitExpr':
                    e = kids(f)[-1]
                self.emit('%s.%s = %s;' % (tmp, f['name'], self.expr(e)))
            return tmp
        if len(ks) == 1:
            return self.expr(ks[0])
        raise ExtractionError('init list of %r' % t)

    def zero_of(self, t):
        if t.name == 'double':
            return 'BS_TLIT(0)'
        if t.name in INT_TYPES:
            return '0'
        raise ExtractionError('zero of %r' % t)


class CallMixin:
    # ---------------------------------------------------------- calls
    def call(self, n, discard=False):
        k = n['kind']
        ks = kids(n)
        if k == 'CXXMemberCallExpr':
            callee = ks[0]
            if callee['kind'] != 'MemberExpr':
                raise ExtractionError('member call through %s' % callee['kind'])
            mid = callee.get('referencedMemberDecl')
            objn = kids(callee)[0]
            if mid in self.u.fn_by_id:
                return self.call_user(self.u.fn_by_id[mid], objn, ks[1:], n, discard, callee.get('isArrow'))
            if mid in self.u.by_id and self.u.by_id[mid].get('kind') in FUNC_KINDS and mid in self.u.ctx_of:
                raise ExtractionError('%s: call of library function %s that has no instantiated body' %
                                      (self.fi.cname, callee.get('name')))
            return self.std_member(callee['name'], objn, ks[1:], n, callee.get('isArrow'), discard)
        if k == 'CXXOperatorCallExpr':
            c = strip(ks[0])
            rid = c['referencedDecl']['id']
            if rid in self.u.fn_by_id:
                fi2 = self.u.fn_by_id[rid]
                if fi2.decl['kind'] == 'CXXMethodDecl':
                    return self.call_user(fi2, ks[1], ks[2:], n, discard)
                return self.call_user(fi2, None, ks[1:], n, discard)
            if rid in self.u.ctx_of and self.u.by_id[rid].get('kind') in FUNC_KINDS:
                raise ExtractionError('%s: call of library operator %s that has no instantiated body' %
                                      (self.fi.cname, c['referencedDecl'].get('name')))
            return self.std_operator(c['referencedDecl']['name'], ks[1:], n, discard)
        # plain CallExpr
        c = strip(ks[0])
        if c['kind'] == 'MemberExpr':
            mid = c.get('referencedMemberDecl')
            if mid in self.u.fn_by_id:
                fi2 = self.u.fn_by_id[mid]
                self.u.get_info(fi2)
                if fi2.is_static:
                    return self.call_user(fi2, None, ks[1:], n, discard)
                return self.call_user(fi2, kids(c)[0], ks[1:], n, discard, c.get('isArrow'))
            raise ExtractionError('call through member %s' % c.get('name'))
        if c['kind'] != 'DeclRefExpr':
            raise ExtractionError('%s: indirect call (%s)' % (self.fi.cname, c['kind']))
        rid = c['referencedDecl']['id']
        if rid in self.u.fn_by_id:
            return self.call_user(self.u.fn_by_id[rid], None, ks[1:], n, discard)
        if rid in self.u.ctx_of and self.u.by_id[rid].get('kind') in FUNC_KINDS:
            raise ExtractionError('%s: call of library function %s that has no instantiated body' %
                                  (self.fi.cname, c['referencedDecl'].get('name')))
        return self.std_free(c['referencedDecl']['name'], ks[1:], n, discard)

    def call_user(self, fi2, objn, args, n, discard=False, is_arrow=False):
        d2 = fi2.decl
        if d2.get('name') == 'operator=' and (d2.get('isImplicit') or d2.get('explicitlyDefaulted')) \
                and len(args) == 1 and not self.u.is_move_param(d2):
            lv = self.obj(objn, is_arrow) if strip(objn)['kind'] == 'CXXThisExpr' else self.lval(objn)
            rv = self.expr(args[0])
            self.emit('%s = %s;' % (lv, rv))
            self.note_write(lv)
            return '' if discard else lv
        self.u.get_info(fi2)
        if fi2.trivial_getter is not None and objn is not None and not args:
            return self.obj(objn, is_arrow) + '.' + fi2.trivial_getter
        argv, wb = [], []
        o = None
        o_is_lv = False
        if fi2.is_method and not fi2.is_static and not fi2.is_ctor:
            if objn is None:
                raise ExtractionError('method %s called without object' % fi2.cname)
            if 'self' in fi2.mutated:
                try:
                    o = self.obj(objn, is_arrow) if strip(objn)['kind'] == 'CXXThisExpr' else self.lval(objn)
                    o_is_lv = True
                except NotLvalue:
                    o = self.lval_or_tmp(objn)
            else:
                o = self.obj(objn, is_arrow)
            argv.append(o)
        pdecls = [c for c in kids(fi2.decl) if c['kind'] == 'ParmVarDecl']
        for i, (pname, pt, pid) in enumerate(fi2.params):
            if i >= len(args):
                raise ExtractionError('%s: too few arguments for %s' % (self.fi.cname, fi2.cname))
            a = args[i]
            if strip(a)['kind'] == 'CXXDefaultArgExpr':
                dk = kids(pdecls[i])
                if not dk:
                    raise ExtractionError('default argument without expression')
                a = dk[-1]
            if pname in fi2.mutated:
                try:
                    lv = self.lval(a)
                    argv.append(lv)
                    wb.append((lv, pname))
                    continue
                except NotLvalue:
                    pass
            argv.append(self.expr(a))
        callstr = '%s(%s)' % (fi2.cname, ', '.join(argv))
        self.fi.calls.add(fi2.cname)
        if fi2.may_throw:
            self.fi.may_throw_now = True
        rk = fi2.rkind
        if rk == 'void':
            self.emit(callstr + ';')
            if fi2.may_throw:
                self.check_exc()
            return ''
        if rk in ('value', 'ctor'):
            rt = fi2.cls if rk == 'ctor' else fi2.ret
            if fi2.may_throw or discard:
                t = self.newtmp()
                self.emit('%s %s = %s;' % (self.u.cty(rt.base()), t, callstr))
                if fi2.may_throw:
                    self.check_exc()
                return '' if discard else t
            return callstr
        if rk == 'self':
            if o_is_lv:
                self.emit('%s = %s;' % (o, callstr))
                self.note_write(o)
                if fi2.may_throw:
                    self.check_exc()
                return '' if discard else o
            t = self.newtmp()
            self.emit('%s %s = %s;' % (self.u.cty(fi2.cls), t, callstr))
            if fi2.may_throw:
                self.check_exc()
            return '' if discard else t
        if rk == 'struct':
            t = self.newtmp()
            self.emit('struct R_%s %s = %s;' % (fi2.cname, t, callstr))
            if o_is_lv and 'self' in fi2.mutated and not fi2.is_ctor:
                self.emit('%s = %s.self;' % (o, t))
                self.note_write(o)
            for lv, p in wb:
                self.emit('%s = %s.%s;' % (lv, t, p))
                self.note_write(lv)
            if fi2.may_throw:
                self.check_exc()
            if discard:
                return ''
            if fi2.is_ctor:
                return t + '.self'
            if fi2.returns_self:
                return o if o_is_lv else t + '.self'
            if fi2.ret is None:
                return ''
            return t + '.ret'
        raise ExtractionError('rkind %s' % rk)

    # ---------------------------------------------------------- constructions
    def construct(self, n):
        t = self.ty(n)
        ks = kids(n)
        if t.name.startswith('std::') or t.name.startswith('__gnu_cxx::'):
            return self.std_construct(t, ks, n)
        if t.name in ('double', 'unsigned long', 'int', 'long', 'bool'):
            return self.expr(ks[0]) if ks else self.zero_of(t)
        # library class
        ctype = n.get('ctorType', {}).get('qualType')
        fi2 = self.u.find_ctor(t, ctype, self)
        if fi2 is None:
            # implicit / defaulted copy or move of a library class
            if len(ks) == 1:
                at = self.ty(ks[0])
                if at.key() == t.key():
                    d = self.u.find_ctor_decl(t, ctype)
                    if d is not None and self.u.is_move_ctor(d) and self.u.has_nontrivial_move(t):
                        raise ExtractionError('%s: move construction of %s has no body to extract' % (self.fi.cname, t.key()))
                    return self.expr(ks[0])
            if not ks and self.u.is_empty_record(t):
                tmp = self.newtmp()
                self.emit('%s %s;' % (self.cty(t), tmp))
                return tmp
            raise ExtractionError('%s: no constructor %s of %s' % (self.fi.cname, ctype, t.key()))
        return self.call_user(fi2, None, ks, n)

    def std_construct(self, t, ks, n):
        ct = self.cty(t)
        ctor = n.get('ctorType', {}).get('qualType', '')
        if t.name == 'std::optional':
            tmp = self.newtmp()
            self.emit('%s %s;' % (ct, tmp))
            if not ks:
                self.emit('%s.has = 0;' % tmp)
                return tmp
            a = strip(ks[0])
            at = self.ty(ks[0])
            if at.name == 'std::nullopt_t':
                self.emit('%s.has = 0;' % tmp)
                return tmp
            if at.name == 'std::optional':
                return self.expr(ks[0])
            v = self.expr(ks[0])
            self.emit('%s.has = 1; %s.v = %s;' % (tmp, tmp, v))
            return tmp
        if t.name == 'std::nullopt_t':
            return 'BS_NULLOPT'
        if t.name == '__gnu_cxx::__normal_iterator' and len(ks) == 1:
            return self.expr(ks[0])
        if t.name == 'std::shared_ptr':
            if len(ks) == 1 and self.ty(ks[0]).name == 'std::shared_ptr':
                return self.copy_or_move(ks[0], t, 'sp')
            raise ExtractionError('shared_ptr construction %s' % ctor)
        if t.name == 'std::array':
            if not ks:
                tmp = self.newtmp()
                self.emit('%s %s;' % (ct, tmp))     # default-initialised: indeterminate values
                return tmp
            if len(ks) == 1 and self.ty(ks[0]).key() == t.key():
                return self.expr(ks[0])
            raise ExtractionError('array construction %s' % ctor)
        if t.name == 'std::vector':
            if not ks:
                tmp = self.newtmp()
                self.emit('%s %s; %s.n = 0;' % (ct, tmp, tmp))
                return tmp
            if len(ks) == 1 and self.ty(ks[0]).key() == t.key():
                return self.copy_or_move(ks[0], t, 'vec')
            a0t = self.ty(ks[0])
            if a0t.name == 'unsigned long' and len(ks) in (2, 3):
                last = strip(ks[-1])
                nargs = len(ks) - (1 if last['kind'] == 'CXXDefaultArgExpr' else 0)
                cnt = self.expr(ks[0])
                tmp = self.newtmp()
                self.emit('%s %s;' % (ct, tmp))
                self.emit('BS_CAPACITY(%s <= BS_CAP);' % cnt)
                self.emit('%s.n = %s;' % (tmp, cnt))
                et = t.args[0]
                if nargs == 2:
                    v = self.expr(ks[1])
                elif self.has_scalar(et):
                    # vector<X>(n) with X holding scalars T: the elements are value-initialised, i.e. T() -- the documented
                    # requirements on T (C19) promise default construction but NOT that T() is zero, so the elements are left
                    # arbitrary: code that relies on them being zero then fails its postcondition
                    self.emit('/* %s value-initialised elements of scalar type: arbitrary values (T() is not promised to be zero) */' % cnt)
                    return tmp
                else:
                    v = self.value_init(et)
                vt = self.newtmp()
                self.emit('%s %s = %s;' % (self.cty(et), vt, v))
                # every element equals the fill value: unrolled for small capacities (refutation / replay
                # instances), one quantified *assumption* otherwise (cbmc's array_set cannot handle rationals)
                comps = self.components(et)
                self.emit('#if BS_CAP <= 16')
                self.emit('for (size_t bs_f = 0; bs_f < BS_CAP; bs_f++) %s.d[bs_f] = %s;' % (tmp, vt))
                self.emit('#elif defined(BS_FILL_ARBITRARY)')
                self.emit('/* the fill values are left arbitrary: a weaker assumption, chosen by a block whose claim does not depend on them */')
                self.emit('#else')
                self.emit('__CPROVER_assume(__CPROVER_forall { size_t bs_f; (bs_f < BS_CAP) ==> (%s) });' %
                          ' && '.join('%s.d[bs_f]%s == %s%s' % (tmp, c, vt, c) for c in comps))
                self.emit('#endif')
                return tmp
            if a0t.name == 'std::initializer_list':
                il = strip(ks[0])
                if il['kind'] == 'CXXStdInitializerListExpr':
                    arr = strip(kids(il)[0])
                    elems = kids(arr) if arr['kind'] == 'InitListExpr' else [arr]
                    tmp = self.newtmp()
                    self.emit('%s %s; %s.n = %d;' % (ct, tmp, tmp, len(elems)))
                    for i, e in enumerate(elems):
                        self.emit('%s.d[%d] = %s;' % (tmp, i, self.expr(e)))
                    return tmp
            raise ExtractionError('%s: vector construction %s' % (self.fi.cname, ctor))
        raise ExtractionError('%s: construction of %r' % (self.fi.cname, t))

    def has_scalar(self, t):
        if t.name == 'std::array':
            return self.has_scalar(t.args[0])
        return t.name == 'double'

    def components(self, t):
        """scalar component paths of a value of type t ('' for a scalar)"""
        if t.name == 'std::array':
            out = []
            for i in range(t.args[1]):
                out += ['.c[%d]%s' % (i, c) for c in self.components(t.args[0])]
            return out
        if t.name in BUILTIN:
            return ['']
        raise ExtractionError('fill of a vector of %r' % t)

    def value_init(self, t):
        if t.name == 'double':
            return 'BS_TLIT(0)'
        if t.name in INT_TYPES:
            return '0'
        if t.name == 'std::array':
            tmp = self.newtmp()
            self.emit('%s %s;' % (self.cty(t), tmp))
            z = self.value_init(t.args[0])
            for i in range(t.args[1]):
                self.emit('%s.c[%d] = %s;' % (tmp, i, z))
            return tmp
        raise ExtractionError('value-initialisation of %r' % t)

    def copy_or_move(self, a, t, what):
        """copy/move construction of a std container; a moved-from vector is empty and a moved-from
        shared_ptr null (libstdc++ behaviour)"""
        is_x = (a.get('valueCategory') == 'xvalue') or strip_is_move(a)
        if not is_x:
            return self.expr(a)
        try:
            with Cap(self) as c:
                lv = self.lval(a)
            self.out.extend(c.lines)
        except NotLvalue:
            return self.expr(a)
        tmp = self.newtmp()
        self.emit('%s %s = %s;' % (self.cty(t), tmp, lv))
        if what == 'vec':
            self.emit('%s.n = 0;' % lv)
        else:
            self.emit('%s.id = BS_NULLID;' % lv)
        self.note_write(lv)
        return tmp


def strip_is_move(a):
    s = strip(a)
    if s['kind'] == 'CallExpr':
        c = strip(kids(s)[0])
        return c.get('kind') == 'DeclRefExpr' and c['referencedDecl'].get('name') in ('move',)
    return False


class StdMixin:
    # ---------------------------------------------------------- std shim
    def std_member(self, name, objn, args, n, is_arrow=False, discard=False):
        if is_arrow and not self.is_sp_arrow(objn) and not (
                strip(objn)['kind'] == 'CXXOperatorCallExpr' and self.ty(kids(strip(objn))[1]).name == '__gnu_cxx::__normal_iterator'):
            raise ExtractionError('%s: -> call on %s' % (self.fi.cname, strip(objn)['kind']))
        if is_arrow and self.is_sp_arrow(objn):
            ot = Ty('std::vector', [Ty('double')])
        elif is_arrow:
            raise ExtractionError('%s: iterator-> call of std member %s' % (self.fi.cname, name))
        else:
            ot = self.ty(objn)
        if name.startswith('operator ') and ot.name == 'std::optional':
            return self.obj(objn) + '.has'
        if name.startswith('operator ') and ot.name == 'std::shared_ptr':
            return '(%s.id != BS_NULLID)' % self.obj(objn)
        if name == 'operator=' and ot.name in ('std::vector', 'std::array', 'std::shared_ptr', 'std::optional'):
            return self.std_operator('operator=', [objn] + list(args), n, discard)
        if ot.name == 'std::vector':
            if name == 'size':
                return self.obj(objn, is_arrow) + '.n'
            if name == 'empty':
                return '(%s.n == 0)' % self.obj(objn, is_arrow)
            if name in ('at', 'operator[]', 'front', 'back'):
                return self.lval(n)
            if name == 'reserve':
                self.expr(args[0])
                return ''
            if name == 'resize' and len(args) in (1, 2) and not is_arrow:
                # vector::resize(n[, val]): elements below min(size, n) keep their values, new elements equal val
                # (value-initialised without val)
                v = self.lval(objn)
                et = ot.args[0]
                cnt = self.newtmp()
                self.emit('size_t %s = %s;' % (cnt, self.expr(args[0])))
                last = strip(args[-1])
                if len(args) == 2 and last['kind'] != 'CXXDefaultArgExpr':
                    val = self.expr(args[1])
                else:
                    val = self.value_init(et)
                vt = self.newtmp()
                self.emit('%s %s = %s;' % (self.cty(et), vt, val))
                self.emit('BS_CAPACITY(%s <= BS_CAP);' % cnt)
                old = self.newtmp()
                self.emit('%s %s = %s;' % (self.cty(ot), old, v))
                comps = self.components(et)
                self.emit('#if BS_CAP <= 16')
                self.emit('for (size_t bs_f = 0; bs_f < BS_CAP; bs_f++) if (bs_f >= %s.n && bs_f < %s) %s.d[bs_f] = %s;' % (old, cnt, v, vt))
                self.emit('#else')
                hv = self.newtmp()
                self.emit('%s %s; %s = %s;' % (self.cty(ot), hv, v, hv))
                self.emit('__CPROVER_assume(__CPROVER_forall { size_t bs_f; (bs_f < BS_CAP) ==> ((bs_f >= %s.n && bs_f < %s) ? (%s) : (%s)) });' % (
                    old, cnt, ' && '.join('%s.d[bs_f]%s == %s%s' % (v, c, vt, c) for c in comps),
                    ' && '.join('%s.d[bs_f]%s == %s.d[bs_f]%s' % (v, c, old, c) for c in comps)))
                self.emit('#endif')
                self.emit('%s.n = %s;' % (v, cnt))
                self.note_write(v)
                return ''
            if name == 'push_back':
                v = self.lval(objn)
                x = self.expr(args[0])
                self.emit('BS_CAPACITY(%s.n < BS_CAP);' % v)
                self.emit('%s.d[%s.n] = %s;' % (v, v, x))
                self.emit('%s.n = %s.n + 1;' % (v, v))
                self.note_write(v)
                return ''
            if name in ('begin', 'end', 'cbegin', 'cend'):
                if is_arrow:
                    p = self.lval_or_tmp(kids(strip(objn))[1])
                    t = self.newtmp()
                    self.emit('struct it_vec_T %s; %s.gid = bs_spid(%s); %s.pos = %s;' % (
                        t, t, p, t, '0' if name in ('begin', 'cbegin') else 'BS_GRIDMEM[bs_spid(%s)].n' % p))
                    self.u.cty(Ty('__gnu_cxx::__normal_iterator', [Ty('double'), Ty('std::vector', [Ty('double')])]))
                    return t
                so = strip(objn)
                if so['kind'] == 'DeclRefExpr' and so['referencedDecl'].get('kind') == 'ParmVarDecl' and \
                        'const' in so['type'].get('qualType', '').split():
                    # iterator over a const vector parameter: the vector is entered into the ghost heap on entry
                    v = self.lval(objn)
                    g = self.heap_reg(v, ot)
                    itt = Ty('__gnu_cxx::__normal_iterator', [ot.args[0], Ty('std::vector', [ot.args[0]])])
                    t = self.newtmp()
                    self.emit('%s %s; %s.gid = %s; %s.pos = %s;' % (self.u.cty(itt), t, t, g, t, '0' if name in ('begin', 'cbegin') else v + '.n'))
                    return t
                # iterator over a local vector: a bare position, the container is known syntactically
                v = self.lval(objn)
                return 'BS_LOCAL_IT(%s, %s)' % (v, '0' if name in ('begin', 'cbegin') else v + '.n')
            if name == 'erase' and len(args) == 2:
                v = self.lval(objn)
                a, b = self.expr(args[0]), self.expr(args[1])
                m1 = re.match(r'BS_LOCAL_IT\((.*), (.*)\)$', b)
                if not m1 or m1.group(1) != v or m1.group(2) != v + '.n':
                    raise ExtractionError('vector::erase(first,last) supported only with last == end()')
                m0 = re.match(r'BS_LOCAL_IT\((.*), (.*)\)$', a)
                if not m0 or m0.group(1) != v:
                    raise ExtractionError('vector::erase(first,last): first is not an iterator of the same vector')
                a = m0.group(2)
                self.emit('__CPROVER_assert(%s <= %s.n, "[C09] vector::erase range inside the vector");' % (a, v))
                self.emit('%s.n = %s;' % (v, a))
                self.note_write(v)
                return ''
        if ot.name == 'std::array':
            N = ot.args[1]
            if name == 'size':
                return '%dUL' % N
            if name in ('at', 'operator[]', 'front', 'back'):
                return self.lval(n)
            if name == 'fill':
                a = self.lval(objn)
                x = self.expr(args[0])
                t = self.newtmp()
                self.emit('%s %s = %s;' % (self.cty(ot.args[0]), t, x))
                for i in range(N):
                    self.emit('%s.c[%d] = %s;' % (a, i, t))
                self.note_write(a)
                return ''
            if name in ('rbegin', 'rend'):
                a = self.lval(objn)
                return 'BS_RIT(%s, %d, %s)' % (a, N, '0' if name == 'rbegin' else str(N))
        if ot.name == 'std::optional':
            if name == 'has_value':
                return self.obj(objn) + '.has'
            if name == 'value':
                return self.lval(n)
            if name == 'value_or':
                o = self.obj(objn)
                return '(%s.has ? %s.v : %s)' % (o, o, self.expr(args[0]))
        raise ExtractionError('%s: std member %s on %r' % (self.fi.cname, name, ot))

    def std_operator(self, op, operands, n, discard=False):
        t0 = self.ty(operands[0])
        if op in ('operator[]', 'operator*') and t0.name in ('std::vector', 'std::array', 'std::optional',
                                                             'std::shared_ptr', '__gnu_cxx::__normal_iterator',
                                                             'std::reverse_iterator'):
            if op == 'operator*' and len(operands) == 2:
                raise ExtractionError('binary * on std type')
            return self.lval(n)
        if t0.name == 'std::shared_ptr':
            if op in ('operator==', 'operator!='):
                a, b = self.obj(operands[0]), self.obj(operands[1])
                return '(%s.id %s %s.id)' % (a, op[8:], b)
            if op == 'operator->':
                raise ExtractionError('bare operator->')
        if t0.name == '__gnu_cxx::__normal_iterator':
            if op in ('operator==', 'operator!=', 'operator<', 'operator<=', 'operator>', 'operator>='):
                a, b = self.lval_or_tmp(operands[0]), self.lval_or_tmp(operands[1])
                # (the check is a call inside the expression so that the comparison can stand in a loop condition)
                return '(bs_same_container(%s.gid, %s.gid) && %s.pos %s %s.pos)' % (a, b, a, op[8:], b)
            if op == 'operator++':
                a = self.lval(operands[0])
                H, N = self.it_heap(t0)
                self.note_write(a)
                if len(operands) == 2 and not discard and not getattr(self, 'in_for_inc', False):
                    raise ExtractionError('%s: value of a post-incremented iterator is used' % self.fi.cname)
                return '(%s.pos = bs_it_inc(%s.pos, %s[%s.gid %% %s].n))' % (a, a, H, a, N)
            if op == 'operator+':
                a = self.lval_or_tmp(operands[0])
                k = self.expr(operands[1])
                t = self.newtmp()
                self.emit('struct it_vec_T %s; %s.gid = %s.gid; %s.pos = %s.pos + (size_t)%s;' % (t, t, a, t, a, self.wrap(k)))
                self.emit('__CPROVER_assert(%s.gid < BS_NG && %s.pos <= BS_GRIDMEM[%s.gid].n, "[C09] iterator arithmetic stays inside [begin,end]");' % (t, t, t))
                return t
        if t0.name == 'std::reverse_iterator' or self.is_rit(operands[0]):
            a = self.expr(operands[0])
            if op in ('operator==', 'operator!='):
                b = self.expr(operands[1])
                return '(%s %s %s)' % (self.rit_pos(a), op[8:], self.rit_pos(b))
            if op == 'operator+':
                m = re.match(r'BS_RIT\((.*), (\d+), (.*)\)$', a)
                k = self.expr(operands[1])
                if m:
                    return 'BS_RIT(%s, %s, %s + %s)' % (m.group(1), m.group(2), m.group(3), k)
            if op == 'operator++':
                nm = strip(operands[0])['referencedDecl']['name']
                return '%s++' % nm
        if t0.name == 'std::optional' and op == 'operator=':
            lv = self.lval(operands[0])
            rt = self.ty(operands[1])
            if rt.name == 'std::optional':
                v = self.expr(operands[1])
                self.emit('%s = %s;' % (lv, v))
            else:
                v = self.expr(operands[1])
                self.emit('%s.has = 1; %s.v = %s;' % (lv, lv, v))
            self.note_write(lv)
            return '' if discard else lv
        if t0.name in ('std::vector', 'std::array', 'std::shared_ptr') and op == 'operator=':
            lv = self.lval(operands[0])
            if t0.name == 'std::vector':
                v = self.copy_or_move(operands[1], t0, 'vec')
            elif t0.name == 'std::shared_ptr':
                v = self.copy_or_move(operands[1], t0, 'sp')
            else:
                v = self.expr(operands[1])
            self.emit('%s = %s;' % (lv, v))
            self.note_write(lv)
            return '' if discard else lv
        if t0.name == 'std::vector' and op in ('operator==', 'operator!='):
            a, b = self.obj(operands[0]), self.obj(operands[1])
            m = self.u.mangle(t0)
            self.u.shim_need.add(('vec_eq', m))
            if m == 'vec_T' and a.startswith('BS_GRIDMEM[') and b.startswith('BS_GRIDMEM['):
                e = 'bs_grid_data_eq(%s, %s)' % (a[len('BS_GRIDMEM['):-1], b[len('BS_GRIDMEM['):-1])
            else:
                e = '%s_eq(%s, %s)' % (m, a, b)
            return e if op == 'operator==' else '(!%s)' % e
        raise ExtractionError('%s: std operator %s on %r' % (self.fi.cname, op, t0))

    def is_rit(self, n):
        s = strip(n)
        return s['kind'] == 'DeclRefExpr' and s['referencedDecl']['id'] in getattr(self, 'prov', {})

    def rit_pos(self, e):
        m = re.match(r'BS_RIT\((.*), (\d+), (.*)\)$', e)
        return m.group(3) if m else e

    def std_free(self, name, args, n, discard=False):
        if name in ('move', 'forward'):
            try:
                return self.lval(args[0])
            except NotLvalue:
                return self.expr(args[0])
        if name in ('min', 'max') and len(args) == 2:
            t = self.ty(n)
            a, b = self.expr(args[0]), self.expr(args[1])
            ta, tb = self.newtmp(), self.newtmp()
            self.emit('%s %s = %s; %s %s = %s;' % (self.cty(t), ta, a, self.cty(t), tb, b))
            if name == 'min':
                return '(%s < %s ? %s : %s)' % (tb, ta, tb, ta)
            return '(%s < %s ? %s : %s)' % (ta, tb, tb, ta)
        if name == 'distance' and len(args) == 2:
            a, b = self.expr(args[0]), self.expr(args[1])
            ma, mb = re.match(r'BS_LOCAL_IT\((.*), (.*)\)$', a), re.match(r'BS_LOCAL_IT\((.*), (.*)\)$', b)
            if ma and mb:
                return '((long)(%s) - (long)(%s))' % (mb.group(2), ma.group(2))
            a, b = self.lval_or_tmp(args[0]), self.lval_or_tmp(args[1])
            self.emit('__CPROVER_assert(%s.gid == %s.gid, "[C09] std::distance between iterators of one container");' % (a, b))
            return '((long)%s.pos - (long)%s.pos)' % (b, a)
        if name == 'lower_bound' and len(args) == 3:
            a, b = self.lval_or_tmp(args[0]), self.lval_or_tmp(args[1])
            x = self.expr(args[2])
            self.u.shim_need.add(('lower_bound', 'vec_T'))
            return 'bs_lower_bound(%s, %s, %s)' % (a, b, x)
        if name == 'unique' and len(args) == 2:
            a, b = self.expr(args[0]), self.expr(args[1])
            ma, mb = re.match(r'BS_LOCAL_IT\((.*), (.*)\)$', a), re.match(r'BS_LOCAL_IT\((.*), (.*)\)$', b)
            if not (ma and mb and ma.group(1) == mb.group(1) and ma.group(2) == '0' and mb.group(2) == ma.group(1) + '.n'):
                raise ExtractionError('std::unique supported only on [v.begin(), v.end())')
            v = ma.group(1)
            self.u.shim_need.add(('unique', 'vec_T'))
            self.emit('%s = bs_unique(%s);' % (v, v))
            self.note_write(v)
            # the elements in front of the returned position are kept in bs_unique_end
            return 'BS_LOCAL_IT(%s, bs_unique_end)' % v
        if name.startswith('make_shared'):
            v = self.expr(args[0]) if len(args) == 1 else None
            if v is None:
                raise ExtractionError('make_shared with %d arguments' % len(args))
            if strip_is_move(args[0]):
                try:
                    lv = self.lval(args[0])
                    t = self.newtmp()
                    self.emit('struct vec_T %s = %s; %s.n = 0;' % (t, lv, lv))
                    self.note_write(lv)
                    v = t
                except NotLvalue:
                    pass
            self.u.shim_need.add(('make_shared', 'vec_T'))
            return 'bs_make_shared_vec(%s)' % v
        if name == 'epsilon' and not args:
            # std::numeric_limits<T>::epsilon(): some positive number (its value is a property of the scalar type)
            return 'BS_EPSILON'
        raise ExtractionError('%s: std function %s/%d' % (self.fi.cname, name, len(args)))


class FnTrFull(FnTr, ExprMixin, CallMixin, StdMixin):
    def setup(self):
        FnTr.setup(self)
        self.locals = set()
        self.prov = {}
        self.lit_prov = {}

        def coll(n):
            if isinstance(n, dict):
                if n.get('kind') in ('VarDecl', 'ParmVarDecl') and 'id' in n:
                    self.locals.add(n['id'])
                for c in n.get('inner', []):
                    coll(c)
        coll(self.d)

    def vardecl(self, v):
        # reverse iterators over a std::array: a bare position with syntactic provenance
        s = qt(v) or ''
        if 'reverse_iterator' in s:
            ks = kids(v)
            e = self.expr(ks[-1])
            m = re.match(r'BS_RIT\((.*), (\d+), (.*)\)$', e)
            if not m:
                raise ExtractionError('reverse iterator initialiser %s' % e)
            self.prov[v['id']] = (m.group(1), int(m.group(2)))
            self.emit('size_t %s = %s;' % (v['name'], m.group(3)))
            return
        if '__normal_iterator' in s:
            ks = kids(v)
            with Cap(self) as c:
                e = self.expr(ks[-1])
            m = re.match(r'BS_LOCAL_IT\((.*), (.*)\)$', e)
            if m:
                self.out.extend(c.lines)
                self.lit_prov[v['id']] = m.group(1)
                self.emit('size_t %s = %s;' % (v['name'], m.group(2)))
                return
        return FnTr.vardecl(self, v)


# =====================================================================
#  unit-level driver: information about functions, emission
# =====================================================================

def _unit_get_info(self, fi):
    if getattr(fi, 'failed', None):
        raise ExtractionError(fi.failed)
    if fi.done or fi.in_progress:
        return fi
    try:
        return _unit_get_info_inner(self, fi)
    except ExtractionError as e:
        # remember the failure: every function that (transitively) calls this one is undecided as well
        fi.in_progress = False
        fi.failed = str(e)
        raise


def _unit_get_info_inner(self, fi):
    fi.in_progress = True
    tr = FnTrFull(self, fi, self.contracts.get(fi.cname))
    tr.setup()
    if fi.decl.get('_abstract'):
        fi.abstract = True
        fi.mutated, fi.may_throw, fi.returns_self, fi.rkind, fi.trivial_getter = [], False, False, 'value', None
        if fi.is_ctor:
            fi.rkind = 'ctor'
        elif fi.ret is None:
            if getattr(fi, 'ret_auto', False):
                raise ExtractionError('%s: abstract function without a spelled return type' % fi.cname)
            fi.rkind = 'void'       # (an abstract member that returns nothing: no visible effect, by assumed contract)
        fi.body = None
        fi.sig = tr.signature()
        fi.rstruct = None
        fi.in_progress = False
        fi.done = True
        self.order.append(fi)
        if fi.ret is not None and fi.ret.ref and not fi.ret.const and not fi.is_ctor:
            # a member that returns a non-const reference: assignments through it become calls of a second abstract
            # function <name>__put(self, args..., value)
            pf = FnInfo(fi.decl, fi.cname + '__put')
            pf.params = list(fi.params) + [('bs_v', fi.ret.base(), None)]
            pf.is_method, pf.is_static, pf.is_const, pf.is_ctor, pf.cls = fi.is_method, fi.is_static, True, False, fi.cls
            pf.ret, pf.rkind, pf.abstract, pf.body, pf.rstruct, pf.src = None, 'void', True, None, None, fi.src
            pf.mutated, pf.may_throw, pf.returns_self, pf.trivial_getter, pf.done = [], False, False, None, True
            ps = (['%s self' % self.cty(fi.cls)] if fi.is_method and not fi.is_static else []) + \
                ['%s %s' % (self.cty(t.base()), nm) for nm, t, pid in pf.params]
            pf.sig = 'void %s(%s)' % (pf.cname, ', '.join(ps))
            self.fn_by_cname[pf.cname] = pf
            self.order.append(pf)
            fi.put_fn = pf
        return fi
    fi.mutated, fi.may_throw, fi.returns_self = [], False, False
    fi.rkind = 'value'
    fi.trivial_getter = self._trivial_getter(fi)
    lines = None
    for it in range(6):
        tr.decide_rkind()
        try:
            lines = tr.translate()
        except Retry:
            continue
        muts = []
        if fi.is_method and not fi.is_static and not fi.is_const and not fi.is_ctor and 'self' in tr.writes:
            muts.append('self')
        for nm, t, pid in fi.params:
            if t.ref and not t.const and nm in tr.writes:
                muts.append(nm)
        thr = fi.may_throw_now
        old = (list(fi.mutated), fi.may_throw, fi.rkind)
        fi.mutated = (['self'] if fi.is_ctor and muts else []) + muts if fi.is_ctor else muts
        fi.may_throw = thr
        tr.decide_rkind()
        if old == (list(fi.mutated), fi.may_throw, fi.rkind):
            break
    else:
        raise ExtractionError('%s: signature did not stabilise' % fi.cname)
    if 'self' in fi.mutated and not fi.is_ctor:
        # state passing: the parameter `self` keeps the incoming object (contracts and loop invariants call it
        # self0 inside the body), the body works on the local copy bs_cur
        lines = [re.sub(r'\bself0\b', 'self', re.sub(r'(?<![.\w])self\b', 'bs_cur', l)) for l in lines]
        lines.insert(0, '  %s bs_cur = self;' % self.cty(fi.cls))
    fi.body = lines
    fi.sig = tr.signature()
    fi.rstruct = tr.rstruct_def()
    fi.in_progress = False
    fi.done = True
    self.order.append(fi)
    return fi


def _trivial_getter(self, fi):
    d = fi.decl
    if d['kind'] != 'CXXMethodDecl' or [c for c in kids(d) if c['kind'] == 'ParmVarDecl']:
        return None
    body = [c for c in kids(d) if c['kind'] == 'CompoundStmt'][0]
    st = []
    for s in kids(body):
        if s['kind'] == 'DoStmt':
            b, c = kids(s)
            if b['kind'] == 'CompoundStmt' and not kids(b) and self.const_eval(c) == 0:
                continue
        st.append(s)
    if len(st) != 1 or st[0]['kind'] != 'ReturnStmt':
        return None
    e = strip(kids(st[0])[0])
    if e['kind'] == 'MemberExpr' and strip(kids(e)[0])['kind'] == 'CXXThisExpr' and \
            e.get('type', {}).get('qualType') != '<bound member function type>':
        return e['name']
    return None


def _find_ctor_decl(self, t, ctype):
    rec = self.records.get(t.key())
    if rec is None:
        return None
    cands = []

    def coll(n):
        for c in kids(n):
            if c['kind'] == 'CXXConstructorDecl':
                cands.append(c)
            elif c['kind'] == 'FunctionTemplateDecl':
                coll(c)
    coll(rec)
    norm = lambda s: re.sub(r'\s+', '', s or '')
    for c in cands:
        if norm(c['type']['qualType']) == norm(ctype):
            return c
    # compare after canonicalising parameter types
    try:
        _, want, _ = split_fn_type(ctype)
        wantk = [self.canon(parse_type(self.resolve_consts(p, t)), t).key() + self.canon(parse_type(self.resolve_consts(p, t)), t).ref for p in want]
    except ExtractionError:
        return None
    for c in cands:
        try:
            _, have, _ = split_fn_type(c['type']['qualType'])
            havek = [self.canon(parse_type(self.resolve_consts(p, t)), t).key() + self.canon(parse_type(self.resolve_consts(p, t)), t).ref for p in have]
        except ExtractionError:
            continue
        if havek == wantk:
            return c
    return None


def _find_ctor(self, t, ctype, tr):
    d = self.find_ctor_decl(t, ctype)
    if d is None:
        return None
    fi = self.fn_by_id.get(d['id'])
    if fi is None:
        return None
    if d.get('isImplicit') or d.get('explicitlyDefaulted'):
        # defaulted copy: member-wise value copy == C struct copy.  defaulted move: extracted.
        if not self.is_move_ctor(d) or not self.has_nontrivial_move(t):
            return None
    return fi


def _is_move_param(self, d):
    ps = [c for c in kids(d) if c['kind'] == 'ParmVarDecl']
    return len(ps) == 1 and qt(ps[0]).rstrip().endswith('&&')


def _is_move_ctor(self, d):
    ps = [c for c in kids(d) if c['kind'] == 'ParmVarDecl']
    return len(ps) == 1 and qt(ps[0]).rstrip().endswith('&&')


def _has_nontrivial_move(self, t, depth=0):
    if t.name in ('std::vector', 'std::shared_ptr'):
        return True
    if t.name in BUILTIN or t.name.startswith('std::'):
        return any(isinstance(a, Ty) and self.has_nontrivial_move(a, depth + 1) for a in t.args)
    rec = self.records.get(t.key())
    if rec is None or depth > 6:
        return False
    for c in kids(rec):
        if c['kind'] == 'CXXConstructorDecl' and self.is_move_ctor(c) and not c.get('isImplicit') \
                and not c.get('explicitlyDefaulted') and any(x['kind'] == 'CompoundStmt' for x in kids(c)):
            return True
        if c['kind'] == 'FieldDecl':
            ft = self.canon(parse_type(self._field_type(c, t)), t)
            if self.has_nontrivial_move(ft, depth + 1):
                return True
    return False


def _is_empty_record(self, t):
    rec = self.records.get(t.key())
    return rec is not None and not [c for c in kids(rec) if c['kind'] == 'FieldDecl']


def _enum_const(self, r):
    nm = r['name']
    for i, d in self.by_id.items():
        if d.get('kind') == 'EnumDecl':
            cs = [c for c in kids(d) if c['kind'] == 'EnumConstantDecl']
            for idx, c in enumerate(cs):
                if c['id'] == r['id']:
                    key = 'BS_ENUM_%s_%s' % (d.get('name'), nm)
                    self.enums[key] = idx
                    return key
    raise ExtractionError('enum constant %s not found' % nm)


Unit.get_info = _unit_get_info
Unit._trivial_getter = _trivial_getter
Unit.find_ctor_decl = _find_ctor_decl
Unit.find_ctor = _find_ctor
Unit.is_move_ctor = _is_move_ctor
Unit.is_move_param = _is_move_param
Unit.has_nontrivial_move = _has_nontrivial_move
Unit.is_empty_record = _is_empty_record
Unit.enum_const = _enum_const


def annotate_locations(tops):
    """clang omits file/line in a loc when unchanged from the previously printed one"""
    state = {'file': None, 'line': None}

    def upd(l):
        if not isinstance(l, dict):
            return
        for key in ('spellingLoc', 'expansionLoc'):
            if key in l:
                upd(l[key])
        if 'file' in l:
            state['file'] = l['file']
        if 'line' in l:
            state['line'] = l['line']

    def walk(n):
        if not isinstance(n, dict):
            return
        if 'loc' in n:
            upd(n['loc'])
        if 'range' in n:
            upd(n['range'].get('begin'))
            b = (state['file'], state['line'])
            upd(n['range'].get('end'))
            e = state['line']
            if n.get('kind') in FUNC_KINDS:
                n['_src'] = (b[0], b[1], e)
        for c in n.get('inner', []):
            walk(c)
    for t in tops:
        walk(t)


def build_unit(json_path, contracts=None):
    tops = load_json_stream(open(json_path).read())
    annotate_locations(tops)
    u = Unit(tops)
    u.contracts = contracts or {}
    u.order = []
    u.enums = {}
    u.assign_names()
    for fi in u.fn_by_id.values():
        if '_src' in fi.decl:
            fi.src = fi.decl['_src']
    return u


def emit_function(fi, clauses=None):
    out = []
    out.append('/* %s:%s-%s */' % (fi.src[0], fi.src[1], fi.src[2]) if fi.src else '/* ? */')
    out.append(fi.sig)
    for c in clauses or []:
        out.append('  ' + c)
    out.append('{')
    out.extend(fi.body or ['  /* abstract */'])
    out.append('}')
    return '\n'.join(out)


def main(argv):
    import argparse
    ap = argparse.ArgumentParser()
    ap.add_argument('json')
    ap.add_argument('--list', action='store_true')
    ap.add_argument('--emit', nargs='*', default=None, help='C names to emit (with callees)')
    ap.add_argument('-o', default='-')
    a = ap.parse_args(argv)
    u = build_unit(a.json)
    if a.list:
        for nm in sorted(u.fn_by_cname):
            fi = u.fn_by_cname[nm]
            print(nm, fi.src)
        return 0
    names = a.emit if a.emit else sorted(u.fn_by_cname)
    failed = []
    for nm in names:
        fi = u.fn_by_cname.get(nm)
        if fi is None:
            print('no such function: ' + nm, file=sys.stderr)
            return 2
        try:
            u.get_info(fi)
        except ExtractionError as e:
            failed.append((nm, str(e)))
            fi.in_progress = False
    res = []
    for k, v in sorted(u.enums.items()):
        res.append('#define %s %d' % (k, v))
    res.extend(u.type_defs)
    for fi in u.order:
        if fi.rstruct:
            res.append(fi.rstruct)
    for fi in u.order:
        res.append(fi.sig + ';')
    for fi in u.order:
        res.append(emit_function(fi))
    txt = '\n'.join(res) + '\n'
    if a.o == '-':
        sys.stdout.write(txt)
    else:
        open(a.o, 'w').write(txt)
    for nm, e in failed:
        print('EXTRACTION-ERROR %s: %s' % (nm, e), file=sys.stderr)
    return 0


if __name__ == '__main__':
    sys.exit(main(sys.argv[1:]))

#!/usr/bin/env python3
"""C19: a contract on the TYPE PARAMETER, decided by the C++ type checker (clang and gcc).
The archetype c19/archetype.h offers only the documented operations; c19/driver.cpp instantiates every core template and
the generic interpolate with it and calls every public operation.  A compile error located in /repo/include is the
violation; the replay file carries the diagnostics.  Negative controls guard the archetype itself (it must reject
implicit conversions, <cmath>, numeric_limits use and streaming)."""
import json, os, re, subprocess, sys, time
ROOT = os.path.dirname(os.path.dirname(os.path.abspath(__file__)))
REPO = os.environ.get('BSV_REPO', '/repo')
EVDIR = os.environ.get('BSV_EVIDENCE_DIR') or os.path.join(ROOT, 'evidence')
NEG = {
    'implicit conversion from int': 'c19::Q q = 1;',
    'implicit conversion from double': 'c19::Q q(1); q = q + 0.5;',
    'comparison with a built-in number': 'c19::Q q(1); bool b = q < 2; (void)b;',
    'conversion to double': 'c19::Q q(1); double d = q; (void)d;',
    'std::sqrt': 'c19::Q q(1); auto r = std::sqrt(q); (void)r;',
    'streaming': 'c19::Q q(1); std::cout << q;',
}


def run(cmd):
    p = subprocess.run(cmd, stdout=subprocess.PIPE, stderr=subprocess.STDOUT, text=True, timeout=900)
    return p.returncode, p.stdout


def main():
    t0 = time.time()
    tier = os.environ.get('VERIF_TIER', 'quick')
    if '--tier' in sys.argv:
        tier = sys.argv[sys.argv.index('--tier') + 1]
    os.makedirs(os.path.join(EVDIR, 'replay'), exist_ok=True)
    inc = ['-I', os.path.join(ROOT, 'c19'), '-I', os.path.join(REPO, 'include')]
    results, violations, samples = [], [], []
    for cxx in ('clang++', 'g++'):
        rc, out = run([cxx, '-std=c++17', '-fsyntax-only'] + inc + [os.path.join(ROOT, 'c19', 'driver.cpp')])
        errs = [l for l in out.split('\n') if re.search(r'\berror\b', l)]
        results.append({'compiler': cxx, 'errors': len(errs), 'rc': rc})
        if rc != 0:
            violations.append((cxx, out))
    # negative controls: the archetype must be as strict as the statement says
    neg_ok = 0
    for what, code in NEG.items():
        src = '#include "archetype.h"\n#include <cmath>\n#include <iostream>\nvoid f() { %s }\n' % code
        p = subprocess.run(['clang++', '-std=c++17', '-fsyntax-only', '-I', os.path.join(ROOT, 'c19'), '-x', 'c++', '-'], input=src,
                           stdout=subprocess.PIPE, stderr=subprocess.STDOUT, text=True)
        if p.returncode != 0:
            neg_ok += 1
        samples.append({'negative_control': what, 'rejected_by_the_archetype': p.returncode != 0})
    rcode = 0
    if neg_ok != len(NEG):
        print('UNDECIDED: the archetype accepts an operation the statement excludes (negative control failed)')
        rcode = 2
    for n, (cxx, out) in enumerate(violations):
        path = os.path.join(EVDIR, 'replay', 'C19-%d.json' % n)
        inrepo = [l for l in out.split('\n') if REPO in l and 'error' in l]
        json.dump({'property': 'C19', 'compiler': cxx, 'obligation': 'the library compiles for a scalar type offering only the documented operations',
                   'first_errors_in_the_library': inrepo[:10], 'verifier_output': out[-6000:],
                   'replay_cmd': '%s -std=c++17 -fsyntax-only -I %s/c19 -I %s/include %s/c19/driver.cpp' % (cxx, ROOT, REPO, ROOT)},
                  open(path, 'w'), indent=1)
        print('VIOLATION property=C19 replay=%s' % path)
        rcode = 1
    drv = open(os.path.join(ROOT, 'c19', 'driver.cpp')).read()
    ev = {'property_id': 'C19', 'tier': tier if tier in ('quick', 'thorough') else 'quick', 'seed': int(os.environ.get('VERIF_SEED', '0') or 0), 'level': 'other',
          'coverage': {'explanation': 'type checking, not CBMC: the archetype scalar c19::Q (default/copy construction, explicit construction from integers, + - * / and compound forms, unary minus, six comparisons; nothing else) is a contract on the type parameter T; c19/driver.cpp instantiates Grid, Support, Spline<0/2/3>, BSplineGenerator (explicitly, i.e. every member) and calls every public operation of splines, operators, forms, supports, grids, linearCombination and the generic interpolate<Q, order, Solver>; the deciding step is the C++ type checker of clang and gcc. The second half of the statement (exact results with an exact field) is what the EXACT-mode proofs of the other checks establish.',
                       'compilers': results, 'negative_controls_rejected': neg_ok, 'negative_controls': len(NEG),
                       'explicit_instantiations': len(re.findall(r'^template class', drv, re.M)), 'driver_lines': drv.count('\n'),
                       'evaluations': len(results) + len(NEG), 'distinct_nontrivial': len(results) + neg_ok, 'samples': samples + results},
          'assumptions': ['the driver calls every public operation once (an operation it does not name is not checked)',
                          'clang 14 and gcc 12 implement the C++17 type rules'],
          'wall_s': round(time.time() - t0, 1), 'violations': len(violations)}
    json.dump(ev, open(os.path.join(EVDIR, 'C19.json'), 'w'), indent=1)
    print('C19: %s; %d/%d negative controls rejected' % (', '.join('%s: %d errors' % (r['compiler'], r['errors']) for r in results), neg_ok, len(NEG)))
    return rcode


if __name__ == '__main__':
    sys.exit(main())

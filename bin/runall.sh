#!/bin/bash
# usage: bin/runall.sh <logdir> <prop>...   (sequential; quick tier)
d=$1; shift; mkdir -p "$d"
for p in "$@"; do
  /usr/bin/time -f "%e s" bin/check "$p" > "$d/$p.log" 2>&1
  echo "$p rc=$? $(tail -1 "$d/$p.log")" >> "$d/summary"
done

#!/usr/bin/env python3
"""writes /verif/MANIFEST.json from the table below (kept in one place so that it stays valid)"""
import json
import os

ROOT = os.path.dirname(os.path.dirname(os.path.abspath(__file__)))

TECH = 'contract-based deductive verification: CBMC function contracts (goto-instrument --dfcc, SMT back ends) on C extracted per run from the instantiated C++ bodies'
NOTE = ('trusted: clang 14 AST as the meaning of the C++; the bs2c translation to by-value C (DESIGN.md 3.2); goto-instrument/cbmc 6.11 and cvc5/z3; '
        'STL shim contracts from the C++ standard; scalar T read as the mathematical rationals (or IEEE double where stated); '
        'vectors capped at 65536 elements; reference aliasing, allocation failure and threads not modelled; template instantiations as listed in fe/drivers')

CLAIMS = {
    'C02': ('proof', 'findInterval, the Horner evaluator, operator() and front/back are under contracts taken from the statement (zero outside the closed support; inside, the stored polynomial of the containing interval about its midpoint; at a shared grid point one of the two adjacent pieces), discharged for all grids, windows, coefficients and abscissae, orders 0..3. One obligation (throw for a point-like support) fails on the unchanged tree and is a recorded known finding.', '4 C02'),
    'C03': ('proof', 'Every arithmetic operator of Spline (scalar *, /, unary -, their in-place forms, cross-order assignment, product, sum, +=, -=, binary -) is under a contract that fixes support and every coefficient of the result on the arbitrary interval gj (Cauchy product, zero-padded sum, zero in gaps), for all operand placements and an unbounded number of intervals (loop contracts). Orders 0..2 quick, 0..3 thorough. linearCombination (collection and iterator overloads) is covered by a BOUNDED stand-in only (at most 3 splines on grids of at most 3 points for refusals, validity and support; at most 2 splines on one interval for the coefficient values), reported under bounded_standins and never counted as proved.', '4 C03'),
    'C04': ('proof', 'Derivative<n>, Position<n>, Identity transforms (n = 0..4, sizes 1..4) against coefficient-wise and EVAL-form specifications printed from the mathematics; faculty/facultyRatio/binomialCoefficient as value tables; transformSpline and operator*(O,S) with loop contracts (same support, per-interval transform, absolute index passed on).', '4 C04'),
    'C05': ('proof', 'Constructor-wise over ABSTRACT child operators (uninterpreted functions): OperatorProduct, OperatorSum (+/-), ScalarMultiplication transforms, the scalar factory overloads, SplineOperator (grid guard, Cauchy product inside the factor support, zero outside), plus the concrete expression trees the generator uses. All expression trees follow by structural induction (meta-argument). The integer-divisor overload of operator/ is a recorded known finding.', '4 C05'),
    'C06': ('proof', 'The per-interval kernel equals the exact integral for all size pairs up to 4x4 (5x3 for abstract operators); BilinearForm::evaluate: grid guard, and every call of the two (abstract) operators is made with the operand\'s own piece, grid and absolute interval index (table rendering, checked preconditions). The accumulation identity (result = sum over the common intervals of the per-interval integrals of (O1 a)(O2 b), 0 without a common interval) is proved for every number of intervals by a loop contract: the prefix-sum definition of the ghost sums is used through one substitution instance per iteration (no quantifier reaches the solver, the per-interval integral is an opaque function, so only congruence is needed); operator() is evaluate in this argument order. The consequences named in the statement hold per interval as lemmas over the integral specification (symmetric under swapping the two polynomials; additive and homogeneous in the first polynomial; sizes up to 4x4).', '4 C06'),
    'C07': ('proof', 'LinearForm kernels (sizes 1..6) equal the exact integral; LinearForm::evaluate with an abstract operator returns the sum of the per-interval integrals over exactly the intervals of the support (loop contract, every number of intervals; the prefix-sum definition is used through one instance per iteration), 0 for an interval-free spline. Second sentence (agreement with the bilinear form), proved as its parts: BilinearForm::evaluate hands each operator the operand\'s own piece, grid and ABSOLUTE interval index and returns the sum over the common intervals of INT2(piece of O1 a, piece of O2 b) (unbounded, see C06); per interval INT2(p, q, h) = INT1(Cauchy product of p and q, h) (lemma L07_int2_is_int1_of_product, sizes up to 4x4), the Cauchy product being exactly what Spline::operator* stores on the common intervals (C03) and transformSpline storing exactly the operator\'s output per interval (C04); sequences with equal terms have equal sums (lemma L07_equal_terms_equal_sums, induction by loop contract). The composition of these parts into the one sentence is a three-line argument outside the verifier, not an obligation.', '4 C07'),
    'C08': ('proof', 'Every entry point under contract that takes two splines or a spline factor carries the clause "grids logically different => DIFFERING_GRIDS" (calcUnion, calcIntersection, +, -, *, +=, -=, BilinearForm::evaluate, SplineOperator::transform), in-place forms additionally "target unchanged". Logical equality is a ghost relation, so distinct objects with equal points are the same grid by construction. linearCombination has the clause only in a BOUNDED stand-in (at most 3 splines); integrate() is not under contract.', '4 C08'),
    'C10': ('proof', 'grid_valid / support_valid / spline_valid are required and ensured by the contracts of constructors, moves (moved-from objects are valid and interval-free), assignments, arithmetic and operator application, including the exceptional exits; every history follows by induction over its length (encapsulation is a meta-argument). Aliasing cases (self-move, self-assignment) are not modelled.', '4 C10'),
    'C11': ('proof', 'Witness-style iff contracts for the Grid constructors (exact and IEEE semantics, so NaN is covered; "valid input is never refused" with a quantified hypothesis), Support and Spline constructors / setData / checkValidity. Generator: too few knots, decreasing knots, knots missing from a supplied grid are refused and the smallest admissible vectors accepted. linearCombination: BOUNDED stand-in (size mismatch, no data, differing grids refused; everything else accepted, at most 3 splines). interpolate<order 1..3> over an abstract solver: count mismatch, fewer than two points, a boundary derivative order outside 1..order are refused with the documented codes, everything else is accepted (loop contracts, any number of nodes).', '4 C11'),
    'C13': ('proof', 'Every Support/Grid index function is under a whole-result contract (64-bit machine arithmetic, wrap-around included) discharged for all grids, windows and all 2^64 index values; the algebraic laws (commutative, associative, idempotent, smallest hull, inverse conversions, consistent views, equality laws) are lemmas proved from those contracts only. Stronger than the statement\'s "grids up to a size bound".', '4 C13'),
    'C14': ('proof', 'Frame conditions: every non-mutating operation has an assigns clause listing at most the exception flag (dfcc checks every write), in-place operators ensure "threw => target unchanged", setData validates before overwriting, the ghost heap of grid vectors is only written by allocation of a fresh slot (frame clause of the Grid constructor). Storage sharing between splines cannot be expressed (by-value extraction).', '4 C14'),
    'C15': ('proof', 'isZero (both directions, the converse with a quantified hypothesis), tied to the wording "evaluates to zero everywhere" by two lemmas per order 0..3: all coefficients zero => value zero at every point; a polynomial that vanishes at order+1 distinct points of an interval of positive width has only zero coefficients (so a non-zero coefficient gives a non-zero value somewhere). checkOverlap (true iff the windows share an interval, for logically equal grids), Spline/Support/Grid equality and inequality in witness form; reflexive/symmetric/transitive/copy laws as lemmas.', '4 C15'),
    'C19': ('other', 'A contract on the type parameter: an archetype scalar offering only the documented operations (explicit integral constructor, four arithmetic operators with compound forms, unary minus, six comparisons, no implicit conversions) instantiates every core template and generic interpolate, calling every public operation; decided by the C++ type checker of clang and gcc. Type checking, not CBMC, and labelled so.', '4 C19'),
    'C01': ('proof', 'The induction that makes the generated functions the Cox-de Boor B-splines, piece by piece: (base) the constructor establishes the class invariant "grid = knots without duplicates" at the arbitrary knot index (assumed contract of std::unique) and refuses decreasing knots; the order-0 functions are the indicators of [t_l, t_l+1) (interval-free for zero-width spans); (step) applyRecursionRelation<k>, k = 2, 3, returns exactly [t_i+p > t_i] (x - t_i)/(t_i+p - t_i) s_i + [t_i+p+1 > t_i+1] (t_i+p+1 - x)/(t_i+p+1 - t_i+1) s_i+1 on every interval, proved from the contracts of the real operator expression tree; (order recursion) generateBSplines<0> and generateBSplines<1> for every knot vector: refusal of too few knots, count m-p-1, every element a valid spline on the generator\'s grid, and element l IS B_{l,p}: its value at the arbitrary point of the arbitrary grid interval equals the Cox-de Boor value (loop contract whose invariant says that element l is one recursion step of elements l, l+1 of the next lower order; the loop step is proved in two exhaustive cases i == l / i != l). NOT proved: generateBSplines<p> for p >= 2 (same contract template, goto-instrument 6.11 aborts while applying the loop contract), so orders >= 2 rest on the step contract plus the induction over p as a meta-argument; the corollaries (partition of unity, smoothness: classical consequences of the recursion).', '4 C01'),
    'C09': ('proof', 'Not separate contracts but the safety obligations of EVERY block of every other check: array bounds, the STL preconditions asserted by the shim (vector[] / front / back / iterator range, optional dereference, shared_ptr dereference), unsigned-to-signed conversions, signed overflow, division by zero, plus "throws for every index outside the view" for the checked accessors over all 2^64 index values. A read of uninitialised coefficients makes a whole-result postcondition fail. Dangling references, allocation failure, Eigen/boost code integrate() and the bundled Eigen/Armadillo adapters are not covered; linearCombination only in its bounded stand-in; interpolate over an abstract solver, including that every write to the linear system lies inside it.', '4 C09'),
    'C12': ('other', 'Two parts, labelled separately in the evidence. PROVED for every number of abscissae (loop contracts, abstract solver): interpolate<1..3> validates its arguments exactly, writes every matrix and right-hand-side entry inside the system, returns the solver\'s solution block by block as a valid spline on exactly the given support; the default boundary set is the documented one. BOUNDED (never counted as proved): with a ghost copy of the assembled system and a solver assumed to return an exact solution of it, the returned spline takes every ordinate (from either side), has continuous derivatives up to order-1 at the interior abscissa and meets every boundary condition (node, derivative order 1..order, value arbitrary) -- for 2 and 3 abscissae on grids of at most 3 points (windows included), orders 1..2 quick, 3 thorough, multiplication treated as an arbitrary function. Not covered: more than 3 abscissae for the conditions, the bundled floating-point solvers.', '4 C12 / W11'),
    'C13x': None,
}
CLAIMS.pop('C13x')

# thorough tiers are registered only once they have been run to completion on the unchanged tree
THOROUGH_VERIFIED = {'C01', 'C02', 'C06', 'C07', 'C13', 'C14', 'C15'}   # run to completion on the unchanged tree at the end of round 3 (exit 0)

NA = {
    'C16': 'floating-point forward-error bounds over chains of operations: no contract within reach of CBMC\'s bit-precise float encoding can express or decide a 2^20-ulp bound; no real-arithmetic error model is installed (DESIGN.md 4 C16)',
    'C17': 'exactness of boost\'s Gauss-Legendre tables up to rounding: third-party floating-point code with irrational nodes; only the grid guard of integrate() is within reach and is checked under C08',
    'C18': 'data-race freedom under all interleavings: CBMC contracts are sequential, the pipeline has no thread model',
}

NA.update({
    'C20': 'numerical outcomes of the Eigen-based example programs (boundary values attained, eigenvalue shifts, n+1/2, -1/n^2) are outside any contract within reach; the opaque-Eigen extraction of the examples was not built',
})
PENDING = 'not claimed yet: the contracts for this property are not built in this revision'


def main():
    props = [json.loads(l)['id'] for l in open(os.path.join(ROOT, 'properties.jsonl')) if l.strip()]
    checks = []
    for pid in props:
        if pid in CLAIMS:
            cat, text, ref = CLAIMS[pid]
            checks.append({
                'property_id': pid,
                'quick_cmd': 'bin/check %s --tier quick' % pid,
                **({'thorough_cmd': 'bin/check %s --tier thorough' % pid} if pid in THOROUGH_VERIFIED else {}),
                'evidence_file': 'evidence/%s.json' % pid,
                'replay_cmd_template': 'python3 bin/replay.py {path}',
                'engine': 'bsv',
                'level_claimed': {'category': cat, 'text': text, 'design_ref': 'DESIGN.md section ' + ref},
                'level_note': NOTE if pid != 'C19' else 'trusted: the C++17 type checkers of clang 14 and gcc 12; the driver names every public operation it checks',
                'technique': TECH if pid != 'C19' else 'contract on the type parameter (archetype class), decided by the C++ type checker',
            })
    na = []
    for pid in props:
        if pid not in CLAIMS:
            na.append({'property_id': pid, 'reason': NA.get(pid, PENDING)})
    m = {
        'version': 1,
        'setup_cmd': 'bin/setup',
        'hooks': {
            'guard': 'OKRUZ_BSPLINEBASIS_VERIF',
            'enable': 'no hooks are needed: contracts live in /verif/contracts and are merged into C extracted from /repo on every run; the guard name is reserved but unused',
            'baseline_off_cmd': 'cmake --build /repo/_build && ctest --test-dir /repo/_build/tests -j8 --timeout 900',
            'source_commits': [],
            'add_only': True,
        },
        'engines': [{
            'name': 'bsv', 'path': 'bin/bsv.py', 'serves_properties': sorted(CLAIMS),
            'kind_free_text': 'clang++ -ast-dump=json -> fe/bs2c.py (mechanical extraction to by-value C) -> contracts/*.ctr merged as __CPROVER_requires/ensures/assigns/loop contracts -> goto-cc -> goto-instrument --dfcc -> cbmc --cvc5|--z3; failed obligations replayed natively by bin/replay.py against the real headers',
        }],
        'checks': checks,
        'not_applicable': na,
        'notes': 'exit 0: every obligation in the property\'s closure discharged; exit 1 + VIOLATION line: a tagged or supporting obligation failed; exit 2: undecided (extraction error, solver timeout, vacuity guard), never a pass and never an alarm. Repairs of genuine defects are "fix:" commits in /repo, recorded in known_findings.txt.',
    }
    with open(os.path.join(ROOT, 'MANIFEST.json'), 'w') as f:
        json.dump(m, f, indent=1)
    print('MANIFEST.json: %d checks, %d not applicable' % (len(checks), len(na)))


if __name__ == '__main__':
    main()

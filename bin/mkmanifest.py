#!/usr/bin/env python3
"""writes /verif/MANIFEST.json from the table below (kept in one place so that it stays valid)"""
import json
import os

ROOT = os.path.dirname(os.path.dirname(os.path.abspath(__file__)))

TECH = 'contract-based deductive verification: CBMC function contracts (goto-instrument --dfcc, SMT back ends) on C extracted per run from the instantiated C++ bodies'
NOTE = ('trusted: clang 14 AST as the meaning of the C++; the bs2c translation to by-value C (DESIGN.md 3.2); goto-instrument/cbmc 6.11 and cvc5/z3; '
        'STL shim contracts from the C++ standard; scalar T read as the mathematical rationals (or IEEE double where stated); '
        'vectors capped at 65536 elements; reference aliasing, allocation failure and threads not modelled; template instantiations as listed in fe/drivers')

CLAIMS = {
    'C13': ('proof', 'Every Support/Grid index function is under a whole-result contract (64-bit machine arithmetic, wrap-around included) that cbmc discharges for all grids, windows and all 2^64 index values; the algebraic laws (commutative, associative, idempotent, inverse conversions, consistent views) are lemmas proved from those contracts only. Stronger than the statement\'s "grids up to a size bound".', '4 C13'),
}

NA = {
    'C16': 'floating-point forward-error bounds over chains of operations: no contract within reach of CBMC\'s bit-precise float encoding can express or decide a 2^20-ulp bound; no real-arithmetic error model is installed (DESIGN.md 4 C16)',
    'C17': 'exactness of boost\'s Gauss-Legendre tables up to rounding: third-party floating-point code with irrational nodes; only the grid guard of integrate() is within reach and is checked under C08',
    'C18': 'data-race freedom under all interleavings: CBMC contracts are sequential, the pipeline has no thread model',
}

PENDING = 'not claimed yet: the contracts for this property are not built in this revision'


def main():
    props = [json.loads(l)['id'] for l in open(os.path.join(ROOT, 'properties.jsonl')) if l.strip()]
    checks = []
    for pid in props:
        if pid in CLAIMS:
            cat, text, ref = CLAIMS[pid]
            checks.append({
                'property_id': pid,
                'quick_cmd': 'bin/check %s --tier quick' % pid,
                'thorough_cmd': 'bin/check %s --tier thorough' % pid,
                'evidence_file': 'evidence/%s.json' % pid,
                'replay_cmd_template': 'python3 bin/replay.py {path}',
                'engine': 'bsv',
                'level_claimed': {'category': cat, 'text': text, 'design_ref': 'DESIGN.md section ' + ref},
                'level_note': NOTE,
                'technique': TECH,
            })
    na = []
    for pid in props:
        if pid not in CLAIMS:
            na.append({'property_id': pid, 'reason': NA.get(pid, PENDING)})
    m = {
        'version': 1,
        'setup_cmd': 'bin/setup',
        'hooks': {
            'guard': 'OKRUZ_BSPLINEBASIS_VERIF',
            'enable': 'no hooks are needed: contracts live in /verif/contracts and are merged into C extracted from /repo on every run; the guard name is reserved but unused',
            'baseline_off_cmd': 'cmake --build /repo/_build && ctest --test-dir /repo/_build/tests -j8 --timeout 900',
            'source_commits': [],
            'add_only': True,
        },
        'engines': [{
            'name': 'bsv', 'path': 'bin/bsv.py', 'serves_properties': sorted(CLAIMS),
            'kind_free_text': 'clang++ -ast-dump=json -> fe/bs2c.py (mechanical extraction to by-value C) -> contracts/*.ctr merged as __CPROVER_requires/ensures/assigns/loop contracts -> goto-cc -> goto-instrument --dfcc -> cbmc --cvc5|--z3; failed obligations replayed natively by bin/replay.py against the real headers',
        }],
        'checks': checks,
        'not_applicable': na,
        'notes': 'exit 0: every obligation in the property\'s closure discharged; exit 1 + VIOLATION line: a tagged or supporting obligation failed; exit 2: undecided (extraction error, solver timeout, vacuity guard), never a pass and never an alarm. Repairs of genuine defects are "fix:" commits in /repo, recorded in known_findings.txt.',
    }
    with open(os.path.join(ROOT, 'MANIFEST.json'), 'w') as f:
        json.dump(m, f, indent=1)
    print('MANIFEST.json: %d checks, %d not applicable' % (len(checks), len(na)))


if __name__ == '__main__':
    main()

#!/usr/bin/env python3
"""replay -- from a failed obligation to a run of the real C++ code.

1. the block's harness is regenerated in *replay mode*: capacity 8, every scalar
   input pinned to k/4 with an integer k taken from a tape (cbmc cannot print
   __CPROVER_rational values, integers it can), grids strictly increasing;
2. cbmc --trace on the failed obligation gives the integers;
3. a C++ program is generated that rebuilds the inputs through the public
   constructors of the real headers in /repo (T = boost cpp_rational, or double
   in IEEE mode), calls the real function, converts the result back into the
   mirror structs and evaluates the failed clause -- the same text, compiled as
   C++ against rt/spec.h.
Exit status of the generated program: 1 = the real code violates the clause,
0 = it does not, 3 = the inputs could not be built.

  replay.py <replay.json>      re-run a stored replay file
"""
import json
import os
import re
import subprocess
import sys

ROOT = os.path.dirname(os.path.dirname(os.path.abspath(__file__)))
sys.path.insert(0, os.path.join(ROOT, 'fe'))
from cxxtypes import Ty, BUILTIN  # noqa: E402

RCAP = 8
DEN = 4


# --------------------------------------------------------------------------
#  walking mirror types
# --------------------------------------------------------------------------
def type_info(u, cty):
    """('T'|'int'|'struct', info) for a C type spelling"""
    if cty == 'T':
        return ('T', None)
    if not cty.startswith('struct '):
        return ('int', cty)
    return ('struct', u.type_done[cty[len('struct '):]])


def leaves(u, cty, path, out, small=True):
    """enumerate scalar leaves of a value of C type cty: (path, kind)"""
    k, info = type_info(u, cty)
    if k == 'T':
        out.append((path, 'T'))
    elif k == 'int':
        out.append((path, info))
    else:
        tag = info[0]
        if tag == 'array':
            for i in range(max(1, info[2])):
                leaves(u, u.cty(info[1]), '%s.c[%d]' % (path, i), out)
        elif tag == 'vector':
            out.append((path + '.n', 'size_t'))
            for i in range(RCAP):
                leaves(u, u.cty(info[1]), '%s.d[%d]' % (path, i), out)
        elif tag == 'optional':
            out.append((path + '.has', '_Bool'))
            leaves(u, u.cty(info[1]), path + '.v', out)
        elif tag == 'shared_ptr':
            out.append((path + '.id', 'size_t'))
        elif tag == 'iterator':
            out.append((path + '.gid', 'size_t'))
            out.append((path + '.pos', 'size_t'))
        elif tag == 'record':
            rec_fields = record_fields(u, cty)
            for fname, fcty in rec_fields:
                leaves(u, fcty, path + '.' + fname, out)
        else:
            raise RuntimeError('leaf walk: %s' % (info,))


def record_fields(u, cty):
    name = cty[len('struct '):]
    for d in u.type_defs:
        m = re.match(r'struct %s \{ (.*) \};$' % re.escape(name), d)
        if m:
            out = []
            for f in m.group(1).split(';'):
                f = f.strip()
                if not f or f == 'char bs_empty':
                    continue
                t, _, n = f.rpartition(' ')
                out.append((n, t))
            return out
    raise RuntimeError('no definition of ' + cty)


# --------------------------------------------------------------------------
#  replay-mode harness
# --------------------------------------------------------------------------
def replay_harness(bsv, r, blocks, concretise=True):
    """regenerate the C of block r with a concretising harness; returns (cfile, hname, tape paths, inputs)"""
    b = r.block
    u = bsv.get_unit(b.unit, blocks, b.mode)
    src = open(r.cfile).read()
    hname = r.hname
    i = src.index('void %s(void)' % hname)
    head = src[:i]
    fi = u.fn_by_cname[b.fn]
    tape = []          # tape index -> path
    stmts = []
    ieee = (b.mode == 'IEEE')

    def conc(path, cty):
        ls = []
        leaves(u, cty, path, ls)
        for p, kind in ls:
            if kind == 'T' and not ieee:
                if concretise:
                    stmts.append('  %s = BS_CONC(bs_tape[%d]);' % (p, len(tape)))
                tape.append(p)
            if p.endswith('.n') and kind == 'size_t':
                stmts.append('  __CPROVER_assume(%s <= %d);' % (p, RCAP))

    out = [head]
    out.append('static inline T BS_CONC(int k) { __CPROVER_assume(k >= -64 && k <= 64); return T_from_int(k) / %d; }' % DEN)
    out.append('void %s(void)' % hname)
    out.append('{')
    out.append('  bs_harness_init();')
    out.append('  int bs_tape[512];')
    for k in range(4):
        conc('BS_GRIDMEM[%d]' % k, 'struct vec_T')
    out += stmts
    stmts.clear()
    # (no sortedness assumption here: in the small instance BS_SORTED is defined from the contents, so a function that
    #  requires a valid grid gets one, and a validation function gets arbitrary sequences)
    inputs = []
    args = []
    if fi.is_method and not fi.is_static and not fi.is_ctor:
        ct = u.cty(fi.cls)
        out.append('  %s self;' % ct)
        conc('self', ct)
        inputs.append(('self', ct))
        args.append('self')
    for nm, t, pid in fi.params:
        ct = u.cty(t.base())
        if nm in b.args:
            out.append('  %s %s = %s;' % (ct, nm, b.args[nm]))
        else:
            out.append('  %s %s;' % (ct, nm))
            conc(nm, ct)
        inputs.append((nm, ct))
        args.append(nm)
    if not ieee:
        for g in ('gu', 'gx'):
            conc(g, 'T')
    out += stmts
    for s in b.pre:
        out.append('  ' + s)
    call = '%s(%s)' % (b.fn, ', '.join(args))
    if fi.rkind == 'void':
        out.append('  %s;' % call)
    else:
        rt = fi.sig.split(' ' + fi.cname + '(')[0]
        out.append('  %s bs_result = %s;' % (rt, call))
    for s in b.post:
        out.append('  ' + s)
    out.append('}')
    cfile = r.base + ('.replay.c' if concretise else '.replayA.c')
    open(cfile, 'w').write('\n'.join(out) + '\n')
    return cfile, hname, tape, inputs


def val_leaves(v, path, out):
    """flatten a cbmc JSON trace value into (path, text) for integer/float leaves"""
    nm = v.get('name')
    if nm == 'struct':
        for m in v.get('members', []):
            if m['name'].startswith('$pad'):
                continue
            val_leaves(m['value'], path + '.' + m['name'], out)
    elif nm == 'array':
        for e in v.get('elements', []):
            val_leaves(e['value'], '%s[%d]' % (path, e['index']), out)
    elif nm == 'integer':
        out[path] = re.sub(r'[uUlL]+$', '', v['data'])
    elif nm == 'boolean':
        out[path] = '1' if v.get('data') in (True, 'true', 'TRUE') else '0'
    elif nm == 'float':
        out[path] = ('F', v.get('binary'), v.get('data'))
    else:
        pass


def trace_values(trace_json, hname, names):
    vals = {}
    data = json.loads(trace_json)
    trace = None
    status = None
    for item in data:
        if isinstance(item, dict) and 'result' in item:
            for p in item['result']:
                if status != 'FAILURE':
                    status = p.get('status')
                if 'trace' in p and p.get('status') == 'FAILURE':
                    trace = p['trace']
    if trace is None:
        return status, None
    for st in trace:
        if st.get('stepType') != 'assignment':
            continue
        lhs = st.get('lhs', '')
        base = re.match(r'[A-Za-z_][A-Za-z_0-9]*', lhs)
        if not base:
            continue
        fn = (st.get('sourceLocation') or {}).get('function', '')
        if base.group(0) in names and fn in (hname, 'bs_harness_init'):
            lhs2 = re.sub(r'\[(\d+)l\]', r'[\1]', lhs)
            val_leaves(st.get('value', {}), lhs2, vals)
    return status, vals


# --------------------------------------------------------------------------
#  C++ program generation
# --------------------------------------------------------------------------
def cxx_type(u, t):
    """C++ spelling of a canonical Ty with double -> T"""
    if isinstance(t, int):
        return str(t)
    n = t.name
    if n == 'double':
        return 'T'
    if n in BUILTIN:
        return n
    if n in ('ADDITION', 'SUBTRACTION'):
        return 'bspline::operators::AdditionOperation::' + n
    if n == '__gnu_cxx::__normal_iterator':
        return 'std::vector<T>::const_iterator'
    s = n
    if t.args:
        s += '<' + ', '.join(cxx_type(u, a) for a in t.args) + '>'
    if n == 'std::shared_ptr':
        s = 'std::shared_ptr<const std::vector<T>>'
    return s


def reachable_types(u, ctys):
    """mangled names of the struct types reachable from the given C type spellings"""
    seen, todo = set(), [c[len('struct '):] for c in ctys if c.startswith('struct ')]
    while todo:
        n = todo.pop()
        if n in seen or n not in u.type_done or u.type_done[n] is None:
            continue
        seen.add(n)
        info = u.type_done[n]
        if info[0] in ('array', 'vector', 'optional', 'shared_ptr'):
            c = u.cty(info[1])
            if c.startswith('struct '):
                todo.append(c[len('struct '):])
        elif info[0] == 'record':
            for fn_, ft in record_fields(u, 'struct ' + n):
                if ft.startswith('struct '):
                    todo.append(ft[len('struct '):])
    return seen


def conv_code(u, only=None):
    """to_real / from_real for the mirror types (all of the unit, or only the given ones)"""
    out = []
    decl = []
    for name, info in u.type_done.items():
        if info is None or (only is not None and name not in only):
            continue
        tag = info[0]
        m = 'struct ' + name
        if tag == 'array':
            rt = 'std::array<%s, %d>' % (real_of(u, info[1]), info[2])
            decl.append('%s to_real(const %s &a);' % (rt, m))
            decl.append('%s from_real(const %s &a);' % (m, rt))
            out.append('%s to_real(const %s &a) { %s r; for (size_t i = 0; i < %d; i++) r[i] = to_real(a.c[i]); return r; }' % (rt, m, rt, info[2]))
            out.append('%s from_real(const %s &a) { %s r; for (size_t i = 0; i < %d; i++) r.c[i] = from_real(a[i]); return r; }' % (m, rt, m, info[2]))
        elif tag == 'vector':
            rt = 'std::vector<%s>' % real_of(u, info[1])
            decl.append('%s to_real(const %s &a);' % (rt, m))
            decl.append('%s from_real(const %s &a);' % (m, rt))
            out.append('%s to_real(const %s &a) { %s r; if (a.n > BS_CAP) bad_input("vector longer than the replay capacity"); for (size_t i = 0; i < a.n; i++) r.push_back(to_real(a.d[i])); return r; }' % (rt, m, rt))
            out.append('%s from_real(const %s &a) { %s r; r.n = a.size(); if (a.size() > BS_CAP) bad_input("result vector longer than the replay capacity"); for (size_t i = 0; i < a.size(); i++) r.d[i] = from_real(a[i]); return r; }' % (m, rt, m))
        elif tag == 'optional':
            rt = 'std::optional<%s>' % real_of(u, info[1])
            decl.append('%s to_real(const %s &a);' % (rt, m))
            decl.append('%s from_real(const %s &a);' % (m, rt))
            out.append('%s to_real(const %s &a) { if (a.has) return to_real(a.v); return std::nullopt; }' % (rt, m))
            out.append('%s from_real(const %s &a) { %s r; r.has = a.has_value(); if (a) r.v = from_real(*a); else r.v = {}; return r; }' % (m, rt, m))
        elif tag == 'shared_ptr':
            rt = 'std::shared_ptr<const std::vector<T>>'
            decl.append('%s to_real(const %s &a);' % (rt, m))
            decl.append('%s from_real(const %s &a);' % (m, rt))
            out.append('%s to_real(const %s &a) { return heap_get(a.id); }' % (rt, m))
            out.append('%s from_real(const %s &a) { %s r; r.id = heap_put(a); return r; }' % (m, rt, m))
        elif tag == 'iterator':
            pass
        elif tag == 'record':
            key = None
            for k2 in u.records:
                try:
                    if u.mangle(u.canon(__import__('cxxtypes').parse_type(k2.replace(',', ', ')))) == name:
                        key = k2
                        break
                except Exception:
                    continue
            if key is None:
                continue
            t = u.canon(__import__('cxxtypes').parse_type(key.replace(',', ', ')))
            rt = cxx_type(u, t)
            fields = record_fields(u, m)
            decl.append('%s to_real(const %s &a);' % (rt, m))
            decl.append('%s from_real(const %s &a);' % (m, rt))
            ctor_args = ['to_real(a.%s)' % f for f, ft in fields]
            if m.replace('struct ', '') == 'BSplineGenerator':
                # the public constructor takes (knots, grid); the fields are declared (_grid, _knots)
                ctor_args = ['to_real(a._knots)', 'to_real(a._grid)']
            out.append('%s to_real(const %s &a) { return %s(%s); }' % (rt, m, rt, ', '.join(ctor_args)))
            out.append('%s from_real(const %s &a) { %s r; %s return r; }' % (m, rt, m, ' '.join('r.%s = from_real(a.%s);' % (f, f) for f, ft in fields)))
    return '\n'.join(decl) + '\n' + '\n'.join(out) + '\n'


def real_of(u, t):
    return cxx_type(u, t)


def cxx_call(u, fi):
    """C++ statements that call the real function on real objects p_r and fill the mirror result"""
    d = fi.decl
    name = d['name']
    args = []
    for nm, t, pid in fi.params:
        args.append('std::move(%s_r)' % nm if t.ref == '&&' else '%s_r' % nm)
    targs = [u._targ(c) for c in d.get('inner', []) if c.get('kind') == 'TemplateArgument']
    # trailing non-type arguments of enable_if parameters (printed as true / -1) are left to their defaults
    while targs and not hasattr(targs[-1], 'name') and str(targs[-1]) in ('-1', 'true', 'True', '1') and len(targs) > len(fi.params):
        targs.pop()
    ta = ''
    if targs and not name.startswith('operator'):
        ta = '<' + ', '.join(cxx_type(u, a) for a in targs) + '>'
    if fi.is_ctor:
        call = '%s(%s)' % (cxx_type(u, fi.cls), ', '.join(args))
    elif fi.is_method and fi.is_static:
        call = '%s::%s%s(%s)' % (cxx_type(u, fi.cls), name, ta, ', '.join(args))
    elif fi.is_method:
        call = 'self_r.%s%s%s(%s)' % ('template ' if ta else '', name, ta, ', '.join(args))
    else:
        ns, cls, dep, pk = u.ctx_of[d['id']]
        call = '%s::%s%s(%s)' % ('::'.join(ns), name, ta, ', '.join(args))
    return call


PROG = r'''// generated replay program -- %(what)s
#include <boost/multiprecision/cpp_int.hpp>
#include <cstdio>
#include <cstdlib>
#include <iostream>
#include <map>
#include <optional>
#include <sstream>
%(tdef)s
#include <bspline/Core.h>
#define _Bool bool
#define BS_CAP %(cap)dUL
#define BS_NG 4UL
#define BS_NULLID (~(size_t)0)
static void bad_input(const char *why) { std::printf("REPLAY-INPUT-NOT-BUILDABLE: %%s\n", why); std::exit(3); }
int bs_exc;
%(enums)s
%(types)s
struct vec_T BS_GRIDMEM[BS_NG];
size_t BS_GRID_NEXT;
bool BS_GEQ[BS_NG][BS_NG];
size_t BS_GEQ_W[BS_NG][BS_NG];
bool BS_SORTED[BS_NG];
size_t BS_SORTED_W[BS_NG];
struct bs_pos_t { size_t p[BS_CAP]; } BS_POSS;
size_t bs_unique_end;
#include "%(root)s/rt/spec.h"
// ---- the ghost heap <-> real shared pointers
static std::map<size_t, std::shared_ptr<const std::vector<T>>> heap_real;
static std::shared_ptr<const std::vector<T>> heap_get(size_t id) {
  if (id == BS_NULLID) return nullptr;
  if (id >= BS_NG) bad_input("grid id outside the heap");
  auto it = heap_real.find(id);
  if (it != heap_real.end()) return it->second;
  if (BS_GRIDMEM[id].n > BS_CAP) bad_input("grid longer than the replay capacity");
  auto p = std::make_shared<const std::vector<T>>(BS_GRIDMEM[id].d, BS_GRIDMEM[id].d + BS_GRIDMEM[id].n);
  heap_real[id] = p;
  return p;
}
static size_t heap_put(const std::shared_ptr<const std::vector<T>> &p) {
  if (!p) return BS_NULLID;
  for (auto &kv : heap_real) if (kv.second.get() == p.get()) return kv.first;
  for (size_t id = 0; id < BS_NG; id++) if (!heap_real.count(id)) {
    heap_real[id] = p; BS_GRIDMEM[id].n = p->size();
    if (p->size() > BS_CAP) bad_input("result grid longer than the replay capacity");
    for (size_t i = 0; i < p->size(); i++) BS_GRIDMEM[id].d[i] = (*p)[i];
    return id; }
  bad_input("ghost heap full");
  return 0;
}
static inline size_t to_real(size_t x) { return x; }
static inline size_t from_real(size_t x) { return x; }
static inline T to_real(const T &x) { return x; }
static inline T from_real(const T &x) { return x; }
static inline bool to_real(bool x) { return x; }
static inline bool from_real(bool x) { return x; }
static inline int to_real(int x) { return x; }
static inline int from_real(int x) { return x; }
static inline T T_from_int(int k) { return T(k); }
static inline T T_from_size(size_t k) { return T((unsigned long long)k); }
static inline long to_real(long x) { return x; }
static inline long from_real(long x) { return x; }
%(conv)s
static void geq_from_contents() {
  for (size_t i = 0; i < BS_NG; i++) for (size_t j = 0; j < BS_NG; j++) {
    bool eq = BS_GRIDMEM[i].n == BS_GRIDMEM[j].n;
    size_t w = 0;
    for (size_t k = 0; eq && k < BS_GRIDMEM[i].n && k < BS_CAP; k++) if (BS_GRIDMEM[i].d[k] != BS_GRIDMEM[j].d[k]) { eq = false; w = k; }
    BS_GEQ[i][j] = eq; BS_GEQ_W[i][j] = w; }
  for (size_t i = 0; i < BS_NG; i++) {
    bool inc = true; size_t w = 0;
    for (size_t k = 0; k + 1 < BS_GRIDMEM[i].n && k + 1 < BS_CAP; k++) if (!(BS_GRIDMEM[i].d[k] < BS_GRIDMEM[i].d[k + 1])) { inc = false; w = k; }
    BS_SORTED[i] = inc; BS_SORTED_W[i] = w; }
}
#define __CPROVER_return_value bs_ret
int main() {
%(decls)s
%(assign)s
  geq_from_contents();
  bs_exc = 0;
  bool pre = true;
%(requires)s
  if (!pre) { std::printf("REPLAY-INPUT-NOT-BUILDABLE: the model does not satisfy the requires clause natively\n"); return 3; }
%(result_decl)s
  try {
%(reals)s
%(call)s
  } catch (const bspline::exceptions::BSplineException &e) {
    bs_exc = 1 + static_cast<int>(e.getErrorCode());
    std::printf("real code threw BSplineException code %%d\n", bs_exc - 1);
  } catch (const std::exception &e) {
    std::printf("real code threw a foreign exception: %%s\n", e.what());
    bs_exc = -1;
  }
  geq_from_contents();
  bool ok = (%(clause)s);
  std::printf("clause: %%s\n", %(clause_str)s);
  std::printf("%(obs)s\n");
  std::printf("REPLAY-RESULT: clause %%s on the real code\n", ok ? "HOLDS" : "VIOLATED");
  return ok ? 0 : 1;
}
'''


def build_and_run(rec, r, o, blocks, bsv):
    b = r.block
    if b.kind != 'function':
        rec['replay_note'] = 'lemma over contracts: no code is executed, nothing to replay'
        return False
    clause = re.sub(r'^__CPROVER_ensures\((.*)\)$', r'\1', rec['clause'].strip())
    if re.search(r'\.(loop_invariant_base|loop_invariant_step|loop_decreases|loop_assigns|loop_step_unwinding)\.', o['id'] or ''):
        # a loop obligation has no counterpart in the loop-free replay instance (loops are unwound there): the replay looks
        # for an input on which ANY postcondition of the same function fails, and the native program checks them all
        ens = [re.sub(r'^__CPROVER_ensures\((.*)\)$', r'\1', t) for kind, tags, t in bsv.clause_lines(b, enforce=True)
               if kind == 'ensures' and '__CPROVER_forall' not in t and '__CPROVER_exists' not in t and '__CPROVER_old' not in t]
        if not ens:
            rec['replay_note'] = 'a loop obligation failed and the block has no quantifier-free postcondition to replay against'
            return False
        clause = ' && '.join('(%s)' % e for e in ens)
        o = dict(o, replay_any_postcondition=True)
        rec['replay_target'] = 'any postcondition of %s (the failed obligation is a loop obligation)' % b.fn
    elif not rec['clause'].strip().startswith('__CPROVER_ensures') and 'postcondition' not in (o['id'] or ''):
        # a safety obligation inside the body (bounds, STL precondition, overflow): natively it is undefined
        # behaviour, not a checkable clause; the replay evaluates "the call completes" under the sanitizers
        clause = None
    if clause and ('__CPROVER_forall' in clause or '__CPROVER_exists' in clause):
        rec['replay_note'] = 'the failed clause is quantified: it cannot be evaluated natively'
        return False
    if any('AbsUp' in ct for ct in [b.fn]):
        rec['replay_note'] = 'the block is stated over abstract child operators (driver classes without a definition): there is no native object to run; see the concrete instances of the same operator classes'
        return False
    notes = []
    for phase, concretise in (('A: integers from the model, generic scalars', False), ('B: scalars pinned to k/%d' % DEN, True)):
        if b.mode == 'IEEE' and concretise:
            break
        ok = one_phase(rec, r, o, blocks, bsv, clause, concretise, notes)
        if ok:
            rec['replay_phase'] = phase
            return True
    rec['replay_note'] = '; '.join(notes)
    return False


def generic_T(idx):
    return ((idx * 7 + 3) % 19 - 9) or 5


def one_phase(rec, r, o, blocks, bsv, clause, concretise, notes):
    b = r.block
    u = bsv.get_unit(b.unit, blocks, b.mode)
    fi = u.fn_by_cname[b.fn]
    cfile, hname, tape, inputs = replay_harness(bsv, r, blocks, concretise)
    base = r.base + ('.replay' if concretise else '.replayA')
    defs = ['-D' + d for d in getattr(b, 'defines', [])]
    rc, out, err, dt = bsv.sh(['goto-cc', '--function', hname, '-DBS_CANARY()=', '-DBS_CAP=%dUL' % RCAP] + defs + ['-o', base + '.a.gb', cfile], 120)
    if rc != 0:
        notes.append('replay harness does not build: ' + (err or out)[-500:])
        return False
    cmd = ['goto-instrument', '--dfcc', hname, '--enforce-contract', b.fn]
    for g in getattr(b, 'replace_eff', b.replace):
        cmd += ['--replace-call-with-contract', g]
    ctext = open(cfile).read()
    for shim in bsv.SHIM_CONTRACTS + sorted(set(re.findall(r'\b(vec_\w+_eq)\(', ctext[ctext.index('rt/harness.h'):]))):
        if re.search(r'\b%s\(' % shim, ctext[ctext.index('rt/harness.h'):]):
            cmd += ['--replace-call-with-contract', shim]
    # like the small-instance stage: loop contracts are not applied, loops are unwound (vectors have <= 8 elements)
    cmd += [base + '.a.gb', base + '.b.gb']
    rc, out, err, dt = bsv.sh(cmd, 300)
    if rc != 0:
        notes.append('replay harness does not instrument')
        return False
    names = {'self', 'bs_tape', 'BS_GRIDMEM', 'BS_GEQ', 'gq', 'gj', 'gk', 'gi', 'gw', 'gu', 'gx'} | {nm for nm, ct in inputs}
    vals = None
    procs = []
    if o.get('replay_any_postcondition'):
        targets = [x for x in bsv.list_properties(base + '.b.gb') if x.startswith(b.fn + '.postcondition.')]
    else:
        targets = [o['id']]
    pargs = []
    for x in targets:
        pargs += ['--property', x]
    for solver in ('cvc5', 'z3'):
        f = open('%s.trace.%s.json' % (base, solver), 'w')
        p = subprocess.Popen(['bash', '-c', 'ulimit -v %d; exec "$@"' % bsv.MEMLIMIT_KB, 'sh', 'cbmc', '--' + solver] + bsv.CBMC_FLAGS +
                             ['--trace', '--json-ui'] + pargs + [base + '.b.gb'], stdout=f, stderr=subprocess.DEVNULL,
                             start_new_session=True, env=dict(os.environ, TMPDIR=os.path.dirname(base)))
        procs.append((solver, p, f))
    import time as _t
    t0 = _t.time()
    pending = list(procs)
    while pending and vals is None and _t.time() - t0 < min(bsv.TIMEOUT, 240):
        for item in list(pending):
            solver, p, f = item
            if p.poll() is not None:
                pending.remove(item)
                f.close()
                try:
                    status, v = trace_values(open('%s.trace.%s.json' % (base, solver)).read(), hname, names)
                except Exception as e:
                    notes.append('trace of %s not parseable (%s)' % (solver, e))
                    continue
                if status == 'FAILURE' and v is not None:
                    vals = v
                    rec['replay_solver'] = solver
                    break
        _t.sleep(0.1)
    for solver, p, f in procs:
        if p.poll() is None:
            try:
                os.killpg(p.pid, 9)
            except OSError:
                pass
            p.wait()
        try:
            f.close()
            os.remove('%s.trace.%s.json' % (base, solver))
        except OSError:
            pass
    if vals is None:
        notes.append('phase %s: the obligation does not fail (or no solver answered) with vectors capped at %d elements%s' % (
            'B' if concretise else 'A', RCAP, ' and scalars k/%d, |k|<=64' % DEN if concretise else ''))
        return False
    ieee = (b.mode == 'IEEE')
    tape_vals = {}
    for p, v in vals.items():
        m = re.match(r'bs_tape\[(\d+)\]$', p)
        if m:
            tape_vals[int(m.group(1))] = v
    concrete = {}
    roots = ['BS_GRIDMEM'] + [nm for nm, ct in inputs] + ['gq', 'gj', 'gk', 'gi', 'gw', 'gu', 'gx']
    for p, v in sorted(vals.items()):
        root = re.match(r'\w+', p).group(0)
        if root not in roots:
            continue
        concrete[p] = ('double', v[1], v[2]) if isinstance(v, tuple) else v
    if not ieee:
        # equivalence classes of the ghost heap, so that logically equal grids get equal contents
        cls = {}
        for k in range(4):
            cls[k] = k
            for j in range(k):
                if vals.get('BS_GEQ[%d][%d]' % (k, j)) == '1':
                    cls[k] = cls[j]
                    break
        for idx, p in enumerate(tape):
            if concretise:
                if idx in tape_vals:
                    concrete[p] = 'Q%s' % tape_vals[idx]
                continue
            m = re.match(r'BS_GRIDMEM\[(\d+)\]\.d\[(\d+)\]$', p)
            if m:
                k, i = int(m.group(1)), int(m.group(2))
                concrete[p] = 'Q%d' % (i * i + 3 * i + cls[k] * (i + 1) - 6)
            else:
                concrete[p] = 'Q%d' % generic_T(idx)
    rec['inputs'] = {p: (v if not isinstance(v, tuple) else v[2]) for p, v in concrete.items()
                     if in_range(p, concrete)}
    rec['inputs_note'] = 'Q<k> means the rational k/%d; phase A takes sizes, indices and ids from the solver model and fills scalars with generic values' % DEN
    assigns = []
    for p, v in concrete.items():
        if isinstance(v, tuple):
            assigns.append('  %s = bits_to_double("%s");' % (p, v[1]))
        elif v.startswith('Q'):
            assigns.append('  %s = T(%s) / %d;' % (p, v[1:], DEN))
        else:
            assigns.append('  %s = %sULL;' % (p, v) if not v.startswith('-') else '  %s = %s;' % (p, v))
    decls, reals = [], []
    for nm, ct in inputs:
        decls.append('  %s %s = {};' % (ct.replace('struct ', ''), nm))
        reals.append('    auto %s_r = to_real(%s);' % (nm, nm))
    call = cxx_call(u, fi)
    rt = fi.sig.split(' ' + fi.cname + '(')[0]
    result_decl = ''
    calls = []
    if fi.rkind == 'void':
        calls.append('    %s;' % call)
    elif fi.rkind in ('value', 'ctor'):
        result_decl = '  %s bs_ret = {};' % rt.replace('struct ', '')
        calls.append('    bs_ret = from_real(%s);' % call)
    elif fi.rkind == 'self':
        result_decl = '  %s bs_ret = {};' % rt.replace('struct ', '')
        calls.append('    try { %s; } catch (...) { bs_ret = from_real(self_r); throw; }' % call)
        calls.append('    bs_ret = from_real(self_r);')
    else:
        result_decl = '  %s bs_ret = {};' % rt.replace('struct ', '')
        if fi.is_ctor:
            calls.append('    auto bs_obj = %s;' % call)
            calls.append('    bs_ret.self = from_real(bs_obj);')
        elif fi.ret is not None and not fi.returns_self:
            calls.append('    bs_ret.ret = from_real(%s);' % call)
        else:
            calls.append('    %s;' % call)
        for mname in fi.mutated:
            if mname == 'self' and fi.is_ctor:
                continue
            calls.append('    bs_ret.%s = from_real(%s_r);' % (mname, mname))
    reqs = ['  pre = pre && (%s);' % implies_to_cxx(q) for q in b.requires if '__CPROVER_forall' not in q]
    tdef = ('using T = double;\n#include <cstring>\nstatic double bits_to_double(const char *b) { unsigned long long v = 0; for (const char *p = b; *p; p++) v = (v << 1) | (unsigned long long)(*p == \'1\'); double d; std::memcpy(&d, &v, 8); return d; }'
            if ieee else 'using T = boost::multiprecision::cpp_rational;')
    types = '\n'.join(re.sub(r'\b_Bool\b', 'bool', t) for t in u.type_defs)
    types += '\n' + '\n'.join(x.rstruct.replace('_Bool', 'bool') for x in u.order if x.rstruct)
    cl = implies_to_cxx(clause) if clause else 'true /* safety obligation: see the sanitizer output */'
    prog = PROG % {
        'what': '%s / %s' % (b.name, o['id']), 'tdef': tdef, 'cap': RCAP, 'root': ROOT,
        'enums': '\n'.join('#define %s %d' % kv for kv in sorted(u.enums.items())),
        'types': types, 'conv': conv_code(u, reachable_types(u, [ct for nm, ct in inputs] + [rt, 'struct vec_T'] + ['struct ' + w for w in re.findall(r'struct (\w+)', fi.rstruct or '')])), 'decls': '\n'.join(decls), 'assign': '\n'.join(assigns),
        'requires': '\n'.join(reqs), 'result_decl': result_decl, 'reals': '\n'.join(reals),
        'call': '\n'.join(calls), 'clause': cl,
        'clause_str': json.dumps(clause or rec.get('description') or ''), 'obs': 'bs_exc after the call: %d", bs_exc); std::printf("',
    }
    cpp = os.path.join(bsv.EVDIR, 'replay', os.path.basename(base) + '.cpp')
    open(cpp, 'w').write(prog)
    rec['replay_program'] = cpp
    rec['replay_cmd'] = 'python3 %s/bin/replay.py <this file>' % ROOT
    ok, text = compile_and_run(cpp, bsv.REPO, sanitize=(clause is None))
    rec['replay_output'] = text[-3000:]
    if not ok:
        if 'does not compile' in text:
            notes.append('phase %s: the replay program does not compile (a limitation of the replay generator, see replay_output)' % ('B' if concretise else 'A'))
        elif 'NOT-BUILDABLE' in text:
            notes.append('phase %s: the model input cannot be built through the public constructors' % ('B' if concretise else 'A'))
        else:
            notes.append('phase %s: the real code does not violate the clause on this input' % ('B' if concretise else 'A'))
    return ok


def implies_to_cxx(e):
    """rewrite CBMC's  a ==> b  (lowest precedence, right associative) as  (!(a) || (b))"""
    # first rewrite inside every parenthesised group
    out, i, n = '', 0, len(e)
    while i < n:
        if e[i] == '(':
            depth, j = 1, i + 1
            while j < n and depth:
                depth += e[j] == '('
                depth -= e[j] == ')'
                j += 1
            out += '(' + implies_to_cxx(e[i + 1:j - 1]) + ')'
            i = j
        else:
            out += e[i]
            i += 1
    # now split at top-level ==>
    parts, depth, cur, i = [], 0, '', 0
    while i < len(out):
        c = out[i]
        depth += c == '('
        depth -= c == ')'
        if depth == 0 and out.startswith('==>', i):
            parts.append(cur)
            cur = ''
            i += 3
            continue
        cur += c
        i += 1
    parts.append(cur)
    res = parts[-1]
    for p in reversed(parts[:-1]):
        res = '(!(%s) || (%s))' % (p.strip(), res.strip())
    return res


def in_range(p, concrete):
    m = re.match(r'(.*)\.d\[(\d+)\]', p)
    if not m:
        return True
    n = concrete.get(m.group(1) + '.n')
    try:
        return int(m.group(2)) < int(n)
    except (TypeError, ValueError):
        return True


def compile_and_run(cpp, repo, sanitize=False):
    exe = cpp[:-4] + '.bin'
    san = ['-fsanitize=address,undefined', '-fno-sanitize-recover=all', '-D_GLIBCXX_ASSERTIONS', '-g'] if sanitize else []
    p = subprocess.run(['g++', '-std=c++17', '-O0', '-fno-access-control', '-w'] + san + ['-I', os.path.join(repo, 'include'),
                        '-o', exe, cpp], stdout=subprocess.PIPE, stderr=subprocess.PIPE, text=True, timeout=600)
    if p.returncode != 0:
        return False, 'replay program does not compile:\n' + p.stderr[-2500:]
    try:
        q = subprocess.run([exe], stdout=subprocess.PIPE, stderr=subprocess.STDOUT, text=True, timeout=120)
    finally:
        try:
            os.remove(exe)
        except OSError:
            pass
    if sanitize:
        bad = q.returncode not in (0, 3) or 'runtime error' in q.stdout or 'AddressSanitizer' in q.stdout or 'Assertion' in q.stdout
        return bad, q.stdout
    return q.returncode == 1 and 'REPLAY-RESULT: clause VIOLATED' in q.stdout, q.stdout


def main(argv):
    if len(argv) != 1:
        print(__doc__)
        return 2
    rec = json.load(open(argv[0]))
    cpp = rec.get('replay_program')
    if not cpp or not os.path.exists(cpp):
        print('no replay program recorded (the verifier produced no concrete failing input); verifier output:')
        print(rec.get('verifier_output'))
        return 2
    ok, text = compile_and_run(cpp, os.environ.get('BSV_REPO', '/repo'), sanitize=bool(rec.get('sanitize')))
    print(text)
    return 1 if ok else 0


if __name__ == '__main__':
    sys.exit(main(sys.argv[1:]))

#!/bin/bash
# usage: bin/confirm_mut.sh <mutation dir with patch.diff demo.cpp meta.json> <worktree to (re)use> <out json>
# Confirms independently, in a scratch worktree outside /repo and /verif: the mutation applies, the library and the
# unedited test suite build and pass with it, the demonstration fails with it and passes without it.
mdir=$1; wt=$2; out=$3
if [ ! -d "$wt" ]; then git -C /repo worktree add -q "$wt" HEAD || exit 3; fi
cd "$wt" || exit 3
git checkout -q -- . ; git clean -q -fd -e _build
res() { printf '{"applies": %s, "build_ok": %s, "tests_pass": %s, "demo_fails_with": %s, "demo_passes_without": %s, "head": "%s"}\n' "$1" "$2" "$3" "$4" "$5" "$(git rev-parse --short HEAD)" > "$out"; }
git apply "$mdir/patch.diff" 2>/dev/null || { res false false false false false; exit 0; }
[ -d _build ] || cmake -G Ninja -B _build -DCMAKE_BUILD_TYPE=Release > /dev/null 2>&1
b=false; t=false; df=false; dp=false
if cmake --build _build -j12 > _build/mut_build.log 2>&1; then b=true; fi
if $b && ctest --test-dir _build/tests --timeout 900 > _build/mut_test.log 2>&1; then t=true; fi
if g++ -std=c++17 -I include -I /usr/include/eigen3 -o _build/_demo "$mdir/demo.cpp" > _build/demo_build.log 2>&1; then
  timeout 300 _build/_demo > _build/demo_with.log 2>&1; [ $? -ne 0 ] && df=true
fi
git checkout -q -- .
if g++ -std=c++17 -I include -I /usr/include/eigen3 -o _build/_demo "$mdir/demo.cpp" > _build/demo_build2.log 2>&1; then
  timeout 300 _build/_demo > _build/demo_without.log 2>&1; [ $? -eq 0 ] && dp=true
fi
res true $b $t $df $dp

#!/bin/bash
# usage: bin/trymut.sh <patch.diff> <property id> [more property ids...]
# applies the patch to a scratch copy of /repo (outside /repo and /verif), runs the checks against it, removes it.
set -u
patch=$1; shift
scratch=$(mktemp -d /var/tmp/mutrepo.XXXXXX)
cp -r /repo/include /repo/examples /repo/tests /repo/CMakeLists.txt "$scratch"/ 2>/dev/null
( cd "$scratch" && patch -p1 -s < "$patch" ) || { echo "patch does not apply"; rm -rf "$scratch"; exit 3; }
cd "$(dirname "$0")/.."
rcs=""
for p in "$@"; do
  BSV_REPO="$scratch" BSV_EVIDENCE_DIR="${MUTEV:-$scratch/evidence}" bin/check "$p" 2>&1 | grep -v "^proved" | cut -c1-400
  rcs="$rcs $p:${PIPESTATUS[0]}"
done
echo "RESULT$rcs"
rm -rf "$scratch"

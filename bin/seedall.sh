#!/bin/bash
# usage: bin/seedall.sh <outdir> <streams> [seed names...]
# Mutation campaign, decoupled from the working tree: the committed /verif (HEAD) is exported to a snapshot outside
# /verif, the checks of the unchanged tree are run once from there (filling the opt-in block cache, BSV_CACHE), then
# every seeded mutation is applied to a scratch copy of /repo and its own property's check is run against it.
# Blocks whose generated C is identical to the baseline come from the cache, so a run costs only the affected blocks.
set -u
out=$1; streams=$2; shift 2
snap=/var/tmp/verif_snap.$$
mkdir -p "$out" "$snap"
git -C /verif archive HEAD | tar -x -C "$snap"
export BSV_CACHE=$out/cache BSV_SCRATCH=$out/scratch
cd "$snap"
if [ ! -e "$out/baseline.done" ]; then
  for p in C13 C15 C11 C02 C14 C07 C05 C06 C04 C01 C08 C10 C03 C09; do
    /usr/bin/time -f "$p rc=%x %e s" -a -o "$out/baseline.summary" env BSV_EVIDENCE_DIR="$out/ev-baseline" python3 bin/bsv.py check $p > "$out/baseline-$p.log" 2>&1
  done
  touch "$out/baseline.done"
fi
names=("$@")
if [ ${#names[@]} -eq 0 ]; then names=($(ls /verif/seeded | sort)); fi
for ((k=0; k<streams; k++)); do
  (
    i=0
    for n in "${names[@]}"; do
      if [ $((i % streams)) -eq $k ]; then
        BSV_JOBS=4 BSV_SCRATCH=$out/scratch-$k bin/seedrun.sh "$out" "$n"
      fi
      i=$((i+1))
    done
  ) &
done
wait
rm -rf "$snap" "$out"/scratch*
echo done > "$out/all.done"

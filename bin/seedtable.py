#!/usr/bin/env python3
"""usage: bin/seedtable.py <campaign outdir>...   -- markdown table: seeded mutation -> what the check of its property reported
(several directories: the last one that holds a log of the mutation wins)"""
import json
import os
import re
import sys

ROOT = os.path.dirname(os.path.dirname(os.path.abspath(__file__)))
outs = sys.argv[1:]
rows = []
for n in sorted(os.listdir(os.path.join(ROOT, 'seeded'))):
    meta = json.load(open(os.path.join(ROOT, 'seeded', n, 'meta.json')))
    out = ([o for o in outs if os.path.exists(os.path.join(o, n + '.log'))] or outs)[-1]
    log = os.path.join(out, n + '.log')
    what = (meta.get('breaks') or meta.get('summary') or '').strip()
    what = re.sub(r'\s+', ' ', what)
    if len(what) > 150:
        what = what[:147] + '...'
    if not os.path.exists(log):
        rows.append((n, what, 'not run', ''))
        continue
    txt = open(log).read()
    m = re.search(r'^RESULT \S+:(\d+)', txt, re.M)
    rc = int(m.group(1)) if m else None
    vio = re.findall(r'^VIOLATION property=\S+ replay=(\S+)(.*)$', txt, re.M)
    replayed = [v for v in vio if 'no-failing-input-found' not in v[1]]
    obl = []
    evd = os.path.join(out, 'ev-' + n, 'replay')
    if os.path.isdir(evd):
        for f in sorted(os.listdir(evd)):
            if f.endswith('.json'):
                try:
                    d = json.load(open(os.path.join(evd, f)))
                    obl.append(d.get('obligation'))
                except Exception:
                    pass
    und = re.findall(r'^UNDECIDED: block (\S+): (.*)$', txt, re.M)
    if rc == 1:
        verdict = 'caught: %d obligation(s) fail, %d replayed natively' % (len(vio), len(replayed))
        detail = ', '.join(dict.fromkeys(o for o in obl if o))[:160]
    elif rc == 2:
        verdict = 'undecided (exit 2)'
        detail = '; '.join('%s: %s' % (b, r[:90]) for b, r in und[:2])
    elif rc == 0:
        verdict = 'MISSED (exit 0)'
        detail = ''
    else:
        verdict = 'no result'
        detail = ''
    rows.append((n, what, verdict, detail))
print('| mutation | what it changes | verdict of `bin/check <its property>` | failing obligations / reason |')
print('|---|---|---|---|')
for r in rows:
    print('| %s | %s | %s | %s |' % tuple(x.replace('|', '\\|') for x in r))
c = sum(1 for r in rows if r[2].startswith('caught'))
print()
print('%d of %d caught, %d undecided, %d missed' % (c, len(rows), sum(1 for r in rows if r[2].startswith('undecided')), sum(1 for r in rows if r[2].startswith('MISSED'))))

"""Template helper functions for contract files ({{...}} expressions).

They only *print* specification expressions from the mathematics: polynomial
products, sums, powers.  a and b are format strings with one %d for the
coefficient index, e.g. 'COEF(self, gj, %d)'.
"""


def _sum(terms):
    return '(' + ' + '.join(terms) + ')' if terms else 'BS_ZERO'


def cauchy(a, b, na, nb, k):
    """coefficient k of the product of polynomials with na resp. nb coefficients"""
    return _sum(['BS_MUL(%s, %s)' % (a % i, b % (k - i)) for i in range(na) if 0 <= k - i < nb])


def padadd(a, b, na, nb, k):
    """coefficient k of the sum, the shorter polynomial zero padded"""
    t = []
    if k < na:
        t.append(a % k)
    if k < nb:
        t.append(b % k)
    return _sum(t)


def power(u, k):
    return '*'.join([u] * k) if k else '1'


def evalp(a, n, u):
    """value at u of the polynomial with n coefficients: sum a_k u^k (macro EVALP_n of spec.h)"""
    return 'EVALP_%d(%s, %s)' % (n, ', '.join(a % k for k in range(n)), u)


def conj(fmt, n, lo=0):
    return '(' + ' && '.join(fmt % tuple([k] * fmt.count('%d')) for k in range(lo, n)) + ')' if n > lo else '1'


def falling(i, n):
    """(i+n)!/i!"""
    r = 1
    for j in range(i + 1, i + n + 1):
        r *= j
    return r


def binom(n, k):
    from math import comb
    return comb(n, k)

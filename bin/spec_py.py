"""Template helper functions for contract files ({{...}} expressions).

They only *print* specification expressions from the mathematics: polynomial
products, sums, powers.  a and b are format strings with one %d for the
coefficient index, e.g. 'COEF(self, gj, %d)'.
"""


def sum_(terms):
    return _sum(terms)


def _sum(terms):
    return '(' + ' + '.join(terms) + ')' if terms else 'BS_ZERO'


def cauchy(a, b, na, nb, k):
    """coefficient k of the product of polynomials with na resp. nb coefficients"""
    return _sum(['BS_MUL(%s, %s)' % (a % i, b % (k - i)) for i in range(na) if 0 <= k - i < nb])


def padadd(a, b, na, nb, k):
    """coefficient k of the sum, the shorter polynomial zero padded"""
    t = []
    if k < na:
        t.append(a % k)
    if k < nb:
        t.append(b % k)
    return _sum(t)


def power(u, k):
    return '*'.join([u] * k) if k else '1'


def evalp(a, n, u):
    """value at u of the polynomial with n coefficients: sum a_k u^k (macro EVALP_n of spec.h)"""
    return 'EVALP_%d(%s, %s)' % (n, ', '.join(a % k for k in range(n)), u)


def conj(fmt, n, lo=0):
    return '(' + ' && '.join(fmt % tuple([k] * fmt.count('%d')) for k in range(lo, n)) + ')' if n > lo else '1'


def falling(i, n):
    """(i+n)!/i!"""
    r = 1
    for j in range(i + 1, i + n + 1):
        r *= j
    return r


def binom(n, k):
    from math import comb
    return comb(n, k)


def deriv_coef(a, n, size, i):
    """coefficient i of the n-th derivative of the polynomial with `size` coefficients a"""
    if i + n >= size:
        return 'BS_ZERO'
    return '%d * %s' % (falling(i, n), a % (i + n))


def deriv_out(n, size):
    return max(n, size - 1) - n + 1


def pos_coef(a, xm, n, size, K):
    """coefficient K of (u + xm)^n * p(u), p with `size` coefficients a"""
    terms = []
    for i in range(size):
        j = K - i
        if 0 <= j <= n:
            t = '%d' % binom(n, j)
            if n - j > 0:
                t += ' * ' + power('(' + xm + ')', n - j)
            terms.append('%s * %s' % (t, a % i))
    return _sum(terms)


def arglist(a, n):
    return ', '.join(a % k for k in range(n))


def absall(cls, nin, nout, comps, gid, idx):
    """components of an abstract operator's output: uninterpreted functions of (input components, grid id, index)"""
    assert len(comps) == nin, (cls, nin, comps)
    return ['__CPROVER_uninterpreted_%s_%d_%d(%s, %s, %s)' % (cls, nin, k, ', '.join(comps), gid, idx) for k in range(nout)]


def comps(fmt, n):
    return [fmt % i for i in range(n)]


def int1(a, n, h):
    """integral over [-h, h] of the polynomial with n coefficients a:  sum_{i even} a_i * 2 h^(i+1) / (i+1)"""
    return 'INT1_%d(%s, %s)' % (n, ', '.join(a % i for i in range(n)), h)


def int2(a, b, na, nb, h):
    """integral over [-h, h] of the product of two polynomials: sum_{i+j even} a_i b_j * 2 h^(i+j+1) / (i+j+1)"""
    f = lambda fmt, i: fmt % ((i,) * fmt.count('%d'))      # (a format string may name the index more than once)
    return 'INT2_%d_%d(%s, %s)' % (na, nb, ', '.join([f(a, i) for i in range(na)] + [f(b, j) for j in range(nb)]), h)


def unroll(fmt, n):
    """conjunction of fmt (one %d) for 0..n-1"""
    return '(' + ' && '.join(fmt.replace('%d', str(k)) for k in range(n)) + ')'


def allk(bound, body):
    """for all k < bound: body(k) -- quantified in the general case, written out for k = 0..7 in the small instance
    (BS_CAP <= 16); body is a format string with {k} for the index"""
    q = '__CPROVER_forall { size_t bs_k; (bs_k < BS_CAP && bs_k < (%s)) ==> (%s) }' % (bound, body.replace('{k}', 'bs_k'))
    u = ' && '.join('(!(%d < (%s)) || (%s))' % (k, bound, body.replace('{k}', str(k))) for k in range(8))
    return 'BS_SEL((%s), (%s))' % (q, u)


def lin_coef(a, size, K, xm, t, kind):
    """coefficient K of  ((u + xm) - t) * p(u)   (kind 'A')   or   (t - (u + xm)) * p(u)   (kind 'B'),
    p with `size` coefficients a (format string)"""
    lo = (a % (K - 1)) if 1 <= K <= size else 'BS_ZERO'
    cur = (a % K) if K < size else 'BS_ZERO'
    xp = '(%s + (%s) * %s)' % (lo, xm, cur)         # coefficient K of (u + xm) p(u)
    tp = '(%s) * %s' % (t, cur)
    return '(%s - %s)' % (xp, tp) if kind == 'A' else '(%s - %s)' % (tp, xp)


def bp(l, p, g='self._grid', gen='self'):
    """Cox-de Boor B_{l,p} at x = gu + XM(g, gj), for x inside grid interval gj (terms with a zero-width denominator
    dropped); l is a C index expression.  B_{l,0} = 1 iff the interval lies in [t_l, t_{l+1}]."""
    kn = lambda off: 'KN(%s, %s + %d)' % (gen, l, off)
    if p == 0:
        return '((%s < %s && %s <= GRID(%s, gj) && GRID(%s, gj + 1) <= %s) ? BS_ONE : BS_ZERO)' % (kn(0), kn(1), kn(0), g, g, kn(1))
    x = '(gu + XM(%s, gj))' % g
    a = '(%s > %s ? (1 / (%s - %s)) * (%s - %s) * %s : BS_ZERO)' % (kn(p), kn(0), kn(p), kn(0), x, kn(0), bp(l, p - 1, g, gen))
    b = '(%s > %s ? (1 / (%s - %s)) * (%s - %s) * %s : BS_ZERO)' % (kn(p + 1), kn(1), kn(p + 1), kn(1), kn(p + 1), x, bp('%s + 1' % l, p - 1, g, gen))
    return '(%s + %s)' % (a, b)


def step(i, K, vi, vip1, g='self._grid', gen='self'):
    """one Cox-de Boor step (template argument K = order + 1) at knot index i applied to the VALUES vi, vip1 of the two
    lower-order functions at x = gu + XM(g, gj); zero-width terms dropped; weights as reciprocals (DESIGN R15)"""
    x = '(gu + XM(%s, gj))' % g
    return ('(KN(%s, %s + %d - 1) > KN(%s, %s) ? (1 / (KN(%s, %s + %d - 1) - KN(%s, %s))) * (%s - KN(%s, %s)) * %s : BS_ZERO)'
            % (gen, i, K, gen, i, gen, i, K, gen, i, x, gen, i, vi)
            + ' + (KN(%s, %s + %d) > KN(%s, %s + 1) ? (1 / (KN(%s, %s + %d) - KN(%s, %s + 1))) * (KN(%s, %s + %d) - %s) * %s : BS_ZERO)'
            % (gen, i, K, gen, i, gen, i, K, gen, i, gen, i, K, x, vip1))


def pv(sp, n):
    """value at the local coordinate gu of spline sp (order n-1) on the arbitrary interval gj, 0 where unsupported"""
    return '(HASINT((%s)._support, gj) ? %s : BS_ZERO)' % (sp, evalp('COEF(%s, gj, %%d)' % sp, n, 'gu'))


def allvalid(v, g, bound=None):
    """every element q < bound (default v.n) of the spline vector v is a valid spline on grid object g"""
    b = bound or (v + '.n')
    body = '(!({k} < %s.n) || (spline_valid(%s.d[{k}]) && same_grid_obj(SP_GRID(%s.d[{k}]), %s)))' % (v, v, v, g)
    return allk(b, body)


# ---- interpolation (contracts/interp.ctr, bounded C12 block) ----------------------------------------------------
# Products and quotients are written with BS_MUL / BS_DIV in the association interpolate uses (power_k = power_{k-1} * u,
# row entry = ratio * power, term = entry * unknown), so that the block can be decided with multiplication as an
# arbitrary function (BS_OPAQUE_MUL): what is proved for every binary function holds for * in particular, where the
# expressions below are the value / the d-th derivative of the interval's polynomial at the interval's end point.
def ip_x(q):
    """abscissa q of the support x"""
    return 'GRID(x._grid, S_START(x) + %s)' % q


def ip_u(j, side):
    """local coordinate (relative to the midpoint) of the left ('L') or right ('R') end point of interval j"""
    a, b = (ip_x(j), ip_x('%s + 1' % j)) if side == 'L' else (ip_x('%s + 1' % j), ip_x(j))
    return 'BS_DIV((%s - %s), 2)' % (a, b)


def ip_pow(u, k):
    p = '1'
    for _ in range(k):
        p = 'BS_MUL(%s, %s)' % (p, u)
    return p


def ip_fr(k, d):
    f = 1
    for t in range(k - d + 1, k + 1):
        f *= t
    return f


def ip_dterms(j, d, u, N, neg=False):
    """terms of the d-th derivative at local coordinate u of the polynomial stored for interval j (order N):
    k!/(k-d)! * u^(k-d) * a_k for k = d..N; d = 0: the value"""
    out = []
    for k in range(d, N + 1):
        pw = ip_pow(u, k - d)
        ent = pw if d == 0 else 'BS_MUL(%s, %s)' % (('(0 - %d)' % ip_fr(k, d)) if neg else str(ip_fr(k, d)), pw)
        out.append('BS_MUL0(%s, ret._coefficients.d[%s].c[%d])' % (ent, j, k))
    return out


def ip_dval(j, d, u, N):
    return '(' + ' + '.join(ip_dterms(j, d, u, N)) + ')'


def ip_jump(jl, jr, d, N):
    """(d-th derivative from the left) - (d-th derivative from the right) at the node between intervals jl and jr"""
    return '(' + ' + '.join(ip_dterms(jl, d, ip_u(jl, 'R'), N) + ip_dterms(jr, d, ip_u(jr, 'L'), N, neg=True)) + ')'

#!/usr/bin/env python3
"""bsv -- proof driver for the BSplinebasis contract verification.

  bsv.py check <Cxx> [--tier quick|thorough]     decide one property
  bsv.py run <block-name-regex> [-v]             run matching contract blocks
  bsv.py list                                    list contract blocks
  bsv.py gen <block> -o file.c                   write the generated C of one block

Pipeline per block (DESIGN.md 3.5):
  clang++ -ast-dump=json (driver TU, /repo headers)  ->  bs2c  ->  C with __CPROVER contracts
  -> goto-cc -> goto-instrument --dfcc --enforce-contract f --replace-call-with-contract g..
  -> cbmc (SMT back ends, portfolio)  ->  per-obligation verdicts
"""
import concurrent.futures as cf
import hashlib
import itertools
import json
import os
import re
import shutil
import subprocess
import sys
import tempfile
import time

ROOT = os.path.dirname(os.path.dirname(os.path.abspath(__file__)))
sys.path.insert(0, os.path.join(ROOT, 'fe'))
sys.path.insert(0, os.path.join(ROOT, 'bin'))
import bs2c  # noqa: E402
from cxxtypes import ExtractionError  # noqa: E402

REPO = os.environ.get('BSV_REPO', '/repo')
EVDIR = os.environ.get('BSV_EVIDENCE_DIR') or os.path.join(os.path.dirname(os.path.dirname(os.path.abspath(__file__))), 'evidence')
SCRATCH = os.environ.get('BSV_SCRATCH') or os.path.join(os.environ.get('TMPDIR', '/var/tmp'), 'bsv-%d' % os.getpid())
TIMEOUT = int(os.environ.get('BSV_TIMEOUT', '300'))
MEMLIMIT_KB = int(os.environ.get('BSV_MEM_KB', str(12 * 1024 * 1024)))
JOBS = int(os.environ.get('BSV_JOBS', '8'))
CBMC_FLAGS = ['--bounds-check', '--pointer-check', '--signed-overflow-check', '--conversion-check',
              '--div-by-zero-check', '--unwind', '24', '--unwinding-assertions', '--object-bits', '12']
SOLVERS = ['cvc5', 'z3']
# shim functions that exist only as (assumed) contracts taken from the C++ standard
SHIM_CONTRACTS = ['bs_lower_bound', 'bs_unique']


class Undecided(Exception):
    pass


# --------------------------------------------------------------------------
#  contract files
# --------------------------------------------------------------------------
class Block:
    def __init__(self):
        self.name = None          # C name of the function (optionally 'name#variant'), or lemma name
        self.fn = None            # C name of the function
        self.kind = 'function'    # function | lemma
        self.unit = 'core'
        self.requires = []
        self.ensures = []         # (tags, text)
        self.assigns = None
        self.loops = {}           # n -> {'invariant': [], 'assigns': str, 'decreases': str}
        self.replace = []
        self.pre = []             # harness statements before the call
        self.post = []            # harness statements after the call (assertions)
        self.body = []            # lemma body
        self.tags = set()
        self.mode = 'EXACT'
        self.file = None
        self.line = 0
        self.solvers = None
        self.noharness = False
        self.args = {}            # harness: param name -> initialiser expression
        self.timeout = None
        self.tier = 'quick'
        self.bounded = None
        self.axioms = {}          # name -> (bound, body with {k}): universally quantified definitional precondition


TAG_RE = re.compile(r'^\[([A-Za-z0-9 ]+)\]\s*')


import spec_py  # noqa: E402  (template helper functions: cauchy(), evalp(), ...)
TENV = {'max': max, 'min': min}
TENV.update({k: getattr(spec_py, k) for k in dir(spec_py) if not k.startswith('_')})


def _subst(text, env):
    def rep(m):
        try:
            return str(eval(m.group(1), dict(TENV, **env)))
        except Exception as e:
            raise Undecided('template expression {%s}: %s' % (m.group(1), e))
    return re.sub(r'\{\{(.+?)\}\}', rep, text)


def _replicate(text, env):
    """'@K in 0..{{N}}: clause'  ->  one clause per value of K (may be nested)"""
    m = re.match(r'@(\w+) in (.+?):\s*(.*)$', text)
    if not m:
        return [(env, text)]
    var, dom, rest = m.group(1), _subst(m.group(2), env), m.group(3)
    if '..' in dom:
        a, b = dom.split('..')
        vals = list(range(int(a), int(b) + 1))
    else:
        vals = [int(x) for x in dom.split(',') if x.strip()]
    out = []
    for v in vals:
        e2 = dict(env)
        e2[var] = v
        out += _replicate(rest, e2)
    return out


def parse_ctr(path):
    blocks = []
    lines = open(path).read().split('\n')
    i = 0
    # join continuation lines (more indented than the clause keyword, starting with '|')
    logical = []
    for ln, raw in enumerate(lines, 1):
        if raw.strip().startswith('#') or not raw.strip():
            continue
        if raw.lstrip().startswith('|') and logical:
            logical[-1] = (logical[-1][0], logical[-1][1] + ' ' + raw.lstrip()[1:].strip())
        else:
            logical.append((ln, raw.rstrip()))
    cur = None
    head = None
    for ln, raw in logical:
        s = raw.strip()
        kw, _, rest = s.partition(' ')
        rest = rest.strip()
        if kw in ('function', 'lemma'):
            head = {'kind': kw, 'name': rest, 'line': ln, 'for': [], 'clauses': []}
            continue
        if head is None:
            raise Undecided('%s:%d: clause outside a block' % (path, ln))
        if kw == 'forstr':
            m = re.match(r'(\w+)\s+in\s+(.+)$', rest)
            head['for'].append((m.group(1), [x.strip() for x in m.group(2).split(',')], None))
            continue
        if kw == 'for':
            # for N in 0..2   |  for N in 1,2,4
            m = re.match(r'(\w+)\s+in\s+(.+)$', rest)
            var, dom = m.group(1), m.group(2).strip()
            cond = None
            if ' if ' in dom:
                dom, cond = dom.split(' if ', 1)
            if '..' in dom:
                a, b = dom.split('..')
                vals = list(range(int(a), int(b) + 1))
            else:
                vals = [int(x) for x in dom.split(',')]
            head['for'].append((var, vals, cond))
            continue
        if kw == 'end':
            envs = [{}]
            for var, vals, cond in head['for']:
                new = []
                for e in envs:
                    for v in vals:
                        e2 = dict(e)
                        e2[var] = v
                        if cond is None or eval(cond, dict(TENV, **e2)):
                            new.append(e2)
                envs = new
            for env in envs:
                b = Block()
                b.kind = head['kind']
                b.name = _subst(head['name'], env)
                b.fn = b.name.split('#')[0]
                b.file, b.line = path, head['line']
                b.env = env
                for ln2, k2, r2 in head['clauses']:
                    prefix = ''
                    if k2 == 'loop':
                        mm = re.match(r'(\d+\s+\w+\s+)(.*)$', r2)
                        if mm:
                            prefix, r2 = mm.group(1), mm.group(2)
                    for env2, r3 in _replicate(r2, env):
                        add_clause(b, k2, prefix + _subst(r3, env2), path, ln2)
                blocks.append(b)
            head = None
            continue
        head['clauses'].append((ln, kw, rest))
    if head is not None:
        raise Undecided('%s: unterminated block %s' % (path, head['name']))
    return blocks


def add_clause(b, kw, rest, path, ln):
    if kw == 'unit':
        b.unit = rest
    elif kw == 'mode':
        b.mode = rest
    elif kw == 'requires':
        b.requires.append(rest)
    elif kw == 'ensures-shift':
        # 'ensures-shift <D> <clause>': the clause is the substitution instance gi -> gi + D of the D == 0 clause (same
        # template text); it is assumed when the function is replaced and only the D == 0 instance is enforced --
        # the ghost index gi is arbitrary, so proving the clause for gi proves it for gi + D
        d, _, rest2 = rest.partition(' ')
        m = TAG_RE.match(rest2)
        tags = set(m.group(1).split()) if m else {'support'}
        text = rest2[m.end():] if m else rest2
        b.ensures.append((tags, text, int(d)))
        b.tags |= tags
    elif kw == 'ensures-derived':
        # a clause that follows from the enforced clauses by a stand-alone lemma (named in the comment of the block):
        # assumed when the function is replaced, not enforced against the body
        m = TAG_RE.match(rest)
        tags = set(m.group(1).split()) if m else {'support'}
        b.ensures.append((tags, rest[m.end():] if m else rest, -1))
        b.tags |= tags
    elif kw == 'ensures-named':
        # 'ensures-named NAME [tags] clause': an ordinary postcondition (enforced, and assumed where the function is
        # replaced) stated at the ghost element index ge.  ge is an unconstrained input that no extracted code reads, so the
        # enforced clause holds for EVERY value of ge; a caller may therefore use further substitution instances of it
        # ('loop N instance <block>.NAME ge:=<term> ret:=<local holding the result> ...') at the start of a loop iteration,
        # provided the local is not assigned by the loop (checked against the loop's assigns clause).
        nm, _, rest2 = rest.partition(' ')
        m = TAG_RE.match(rest2)
        tags = set(m.group(1).split()) if m else {'support'}
        text = rest2[m.end():] if m else rest2
        b.ensures.append((tags, text))
        b.tags |= tags
        b.named = dict(getattr(b, 'named', {}), **{nm: text})
    elif kw == 'ensures':
        m = TAG_RE.match(rest)
        tags = set(m.group(1).split()) if m else {'support'}
        text = rest[m.end():] if m else rest
        b.ensures.append((tags, text))
        b.tags |= tags
    elif kw == 'assigns':
        b.assigns = rest
    elif kw == 'replace':
        b.replace += rest.split()
    elif kw == 'pre':
        b.pre.append(rest)
    elif kw == 'post':
        b.post.append(rest)
        m = re.search(r'"\[([A-Za-z0-9 ]+)\]', rest)
        if m:
            b.tags |= set(m.group(1).split())
    elif kw == 'body':
        b.body.append(rest)
        m = re.search(r'"\[([A-Za-z0-9 ]+)\]', rest)
        if m:
            b.tags |= set(m.group(1).split())
    elif kw == 'tags':
        b.tags |= set(rest.split())
    elif kw == 'axiom':
        # 'axiom NAME <bound> :: <body with {k}>' -- the universally quantified precondition "for all k < bound: body(k)"
        # over ghost data only (a definition of ghost symbols, e.g. prefix sums).  It is never handed to the solver as a
        # quantifier: the small instance writes it out for k = 0..7, the unbounded run uses it ONLY through the
        # substitution instances named by 'loop N instance NAME <term>' (each a logical consequence of the axiom, generated
        # from this text by substitution).  What is proved: for all ghost data, if the instances hold the postconditions
        # hold -- hence the postconditions hold whenever the axiom holds.
        nm, _, r2 = rest.partition(' ')
        bound, _, body = r2.partition('::')
        b.axioms[nm] = (bound.strip(), body.strip())
    elif kw == 'loop':
        n, k2, r2 = rest.split(' ', 2) if rest.count(' ') >= 2 else (rest.split(' ') + [''])[:3]
        d = b.loops.setdefault(int(n), {'invariant': [], 'assigns': None, 'decreases': None, 'instance': []})
        d.setdefault('instance', [])
        if k2 == 'invariant':
            d['invariant'].append(r2)
        elif k2 == 'case':
            # 'loop N case <condition>': the loop step is proved twice, once under the condition (block NAME#case1, built
            # with -DBS_CASESEL=1) and once under its negation (block NAME, BS_CASESEL=0).  The two cases are exhaustive, so
            # together they are the unsplit obligation; load_blocks() refuses a block whose twin is missing.
            d.setdefault('case', []).append(r2)
        elif k2 == 'instance':
            # 'loop N instance NAME <term> [x:=y ...]': at the start of every iteration, the instance k := <term> of axiom NAME
            d['instance'].append(r2)
        else:
            d[k2] = r2
    elif kw == 'solvers':
        b.solvers = rest.split()
    elif kw == 'noharness':
        b.noharness = True
    elif kw == 'assumed':
        # the contract of a function WITHOUT a body (a member of an abstract class of the driver TU): never run as a
        # block of its own, only used in place of calls; the text goes into the evidence as an unchecked assumption
        b.assumed = rest.strip() or 'assumed contract'
    elif kw == 'arg':
        nm, _, val = rest.partition(' ')
        b.args[nm] = val.strip()
    elif kw == 'timeout':
        b.timeout = int(rest)
    elif kw == 'unwind':
        b.unwind = int(rest)
    elif kw == 'only':
        b.only_re = rest
    elif kw == 'split':
        b.split = True
    elif kw == 'noinit':
        b.noinit = True
    elif kw == 'recursive':
        b.recursive = True
    elif kw == 'cap':
        b.cap = int(rest)
    elif kw == 'canarycap':
        b.canarycap = int(rest)
    elif kw == 'abstable':
        # abstable <abstract function> <operand struct> <operand harness variable>
        b.abstable = getattr(b, 'abstable', []) + [rest.split()]
    elif kw == 'define':
        b.defines = getattr(b, 'defines', []) + rest.split()
    elif kw == 'tier':
        # 'tier thorough'  or  'tier thorough if <python expression over the template variables>'
        if ' if ' in rest:
            t, cond = rest.split(' if ', 1)
            if eval(cond, dict(TENV, **getattr(b, 'env', {}))):
                b.tier = t.strip()
        else:
            b.tier = rest
    elif kw == 'bounded':
        b.bounded = rest
    else:
        raise Undecided('%s:%d: unknown clause %s' % (path, ln, kw))


def load_blocks():
    out = []
    d = os.path.join(ROOT, 'contracts')
    for f in sorted(os.listdir(d)):
        if f.endswith('.ctr'):
            out += parse_ctr(os.path.join(d, f))
    import copy
    extra = []
    for b in out:
        if b.mode == 'BOTH':
            b2 = copy.copy(b)
            b2.mode = 'IEEE'
            b.mode = 'EXACT'
            extra.append(b2)
    out += extra
    for b in out:
        if any(lc.get('case') for lc in b.loops.values()):
            twin = b.fn + '#case1' if '#' not in b.name else b.fn
            want = 'BS_CASESEL=%d' % (0 if '#' not in b.name else 1)
            if want not in getattr(b, 'defines', []) or not any(x.name == twin and x.mode == b.mode for x in out):
                raise Undecided('contract block %s splits a loop step into cases: it needs `define %s` and the twin block %s'
                                % (b.name, want, twin))
    names = {}
    for b in out:
        key = (b.name, b.mode)
        if key in names:
            raise Undecided('duplicate contract block %s' % b.name)
        names[key] = b
    return out


def clause_lines(b, enforce=True):
    """function-level __CPROVER clauses, one per line (line numbers identify postconditions)"""
    out = []
    for r in b.requires:
        out.append(('requires', None, '__CPROVER_requires(%s)' % r))
    for nm, (bound, body) in sorted(b.axioms.items()):
        u = ' && '.join('(!(%d < (%s)) || (%s))' % (k, bound, body.replace('{k}', str(k))) for k in range(8))
        out.append(('requires', None, '__CPROVER_requires(BS_SEL(1, (%s)))' % u))
    for ent in b.ensures:
        tags, e = ent[0], ent[1]
        if len(ent) > 2 and ent[2] != 0 and enforce:
            continue
        out.append(('ensures', tags, '__CPROVER_ensures(%s)' % e.replace('ret', '__CPROVER_return_value')
                    if False else '__CPROVER_ensures(%s)' % re.sub(r'\bret\b', '__CPROVER_return_value', e)))
    if b.assigns is not None:
        a = b.assigns.strip()
        out.append(('assigns', None, '__CPROVER_assigns(%s)' % ('' if a in ('-', 'nothing') else a)))
    return out


def loop_clauses(b, byname=None):
    d = {}
    for n, lc in b.loops.items():
        cl = []
        if lc.get('assigns'):
            cl.append('__CPROVER_assigns(%s)' % lc['assigns'])
        for inv in lc['invariant']:
            cl.append('__CPROVER_loop_invariant(%s)' % inv)
        for cs in lc.get('case') or []:
            cl.append('@@__CPROVER_assume(BS_CASESEL ? (%s) : !(%s)); /* case split, both cases are proved: blocks %s and %s#case1 */'
                      % (cs, cs, b.fn, b.fn))
        for ins in lc.get('instance') or []:
            parts = ins.split()
            nm, rest_ = parts[0], parts[1:]
            if '.' in nm:
                # instance of a named ghost-index postcondition of a replaced callee
                cbn, cl_ = nm.rsplit('.', 1)
                cb_ = (byname or {}).get(cbn)
                if cb_ is None or cl_ not in getattr(cb_, 'named', {}):
                    raise Undecided('contract block %s: instance of the unknown clause %s' % (b.name, nm))
                if cbn not in b.replace:
                    raise Undecided('contract block %s: %s is not used through its contract' % (b.name, cbn))
                txt, subs, what = cb_.named[cl_], rest_, 'clause'
                tgt = [su.split(':=')[1] for su in subs if su.startswith('ret:=')]
                asg = [x.strip() for x in (lc.get('assigns') or '').split(',')]
                if not tgt or tgt[0] in asg:
                    raise Undecided('contract block %s: instance of %s needs ret:=<local not assigned by the loop>' % (b.name, nm))
            else:
                term, subs, what = rest_[0], rest_[1:], 'axiom'
                if nm not in b.axioms:
                    raise Undecided('contract block %s: instance of the unknown axiom %s' % (b.name, nm))
                bound, body = b.axioms[nm]
                txt = '!((%s) < (%s)) || (%s)' % (term, bound, body.replace('{k}', '(%s)' % term))
            for su in subs:
                x, y = su.split(':=')
                txt = re.sub(r'\b%s\b' % re.escape(x), '(%s)' % y, txt)
            # '@@' = a statement at the start of the loop body (fe/bs2c.py), not a loop-contract clause
            cl.append('@@__CPROVER_assume(%s); /* instance of %s %s */' % (txt, what, ins))
        if lc.get('decreases'):
            cl.append('__CPROVER_decreases(%s)' % lc['decreases'])
        d['loop%d' % n] = cl
    return d


# --------------------------------------------------------------------------
#  front end: clang AST of a driver TU (cached per run by content hash)
# --------------------------------------------------------------------------
_units = {}


def repo_hash():
    h = hashlib.sha256()
    for base, _, files in sorted(os.walk(os.path.join(REPO, 'include'))):
        for f in sorted(files):
            p = os.path.join(base, f)
            h.update(p.encode())
            h.update(open(p, 'rb').read())
    return h.hexdigest()[:16]


def unit_json(unit, defines=()):
    os.makedirs(SCRATCH, exist_ok=True)
    drv = os.path.join(ROOT, 'fe', 'drivers', unit + '.cpp')
    if not os.path.exists(drv):
        raise Undecided('no driver TU %s' % drv)
    dh = hashlib.sha256(open(drv, 'rb').read()).hexdigest()[:8]
    out = os.path.join(SCRATCH, 'ast-%s%s-%s-%s.json' % (unit, ''.join('-' + d for d in defines), repo_hash(), dh))
    if os.path.exists(out):
        return out
    cmd = ['clang++', '-std=c++17', '-I', os.path.join(REPO, 'include'), '-fsyntax-only', '-Xclang',
           '-ast-dump=json', '-Xclang', '-ast-dump-filter=bspline'] + ['-D' + d for d in defines] + [drv]
    with open(out + '.tmp', 'w') as f:
        p = subprocess.run(cmd, stdout=f, stderr=subprocess.PIPE, text=True)
    if p.returncode != 0:
        raise Undecided('driver TU %s does not compile against %s:\n%s' % (unit, REPO, p.stderr[-2000:]))
    os.rename(out + '.tmp', out)
    return out


def get_unit(unit, blocks, mode):
    key = (unit, mode)
    if key in _units:
        return _units[key]
    u = bs2c.build_unit(unit_json(unit))
    ctrs = {}
    for b in blocks:
        if b.kind == 'function' and (b.mode == mode or (mode != 'IEEE' and b.mode == 'EXACT')):
            if '#' not in b.name or b.name not in ctrs:
                ctrs.setdefault(b.fn, {}).update(loop_clauses(b, {x.name: x for x in blocks if x.kind == 'function'}))
    u.contracts = ctrs
    u.cty(bs2c.parse_type('std::shared_ptr<std::vector<double>>'))
    u.cty(bs2c.Ty('__gnu_cxx::__normal_iterator', [bs2c.Ty('double'), bs2c.Ty('std::vector', [bs2c.Ty('double')])]))
    _units[key] = u
    return u


# --------------------------------------------------------------------------
#  C generation for one block
# --------------------------------------------------------------------------
def abstract_decl(u, fi, table=None):
    if table is not None:
        return abstract_decl_table(u, fi, table)
    return abstract_decl_uf(u, fi)


def abstract_decl_table(u, fi, table):
    """table rendering of an abstract operator applied to ONE fixed operand (used by the forms, whose specification
    needs a quantified prefix-sum axiom, in which cbmc allows array reads but no function applications): the piece of
    (O a) on absolute interval j is the ghost table entry BS_TAB_f.d[j]; the stub REQUIRES that it is called with the
    operand's own piece for that interval, its grid and that interval index (checked at every call site)"""
    fname, optype, opvar = table
    tin = fi.params[0][1]
    nin, nout = tin.args[1], fi.ret.args[1]
    pn = [p[0] for p in fi.params]
    rt = u.cty(fi.ret.base())
    out = ['/* abstract child operator applied to the fixed operand BS_OPD_%s: table rendering (assumed contract) */' % fname,
           'struct bs_tab_%s { %s d[BS_CAP]; } BS_TAB_%s;' % (fname, rt, fname),
           'struct %s BS_OPD_%s;' % (optype, fname),
           fi.sig,
           '  __CPROVER_requires(HASINT(BS_OPD_%s._support, %s) && grid_eq(%s, SP_GRID(BS_OPD_%s)) && %s)' % (
               fname, pn[2], pn[1], fname,
               ' && '.join('%s.c[%d] == COEF(BS_OPD_%s, %s, %d)' % (pn[0], i, fname, pn[2], i) for i in range(nin)))]
    for k in range(nout):
        out.append('  __CPROVER_ensures(__CPROVER_return_value.c[%d] == BS_TAB_%s.d[%s].c[%d])' % (k, fname, pn[2], k))
    out.append('  __CPROVER_assigns()')
    out.append(';')
    return out


def abstract_decl_uf(u, fi):
    """an abstract child operator's transform: declared only, under the assumed contract 'a deterministic, side-effect
    free function of (input coefficients, grid, interval index) that does not throw' -- one uninterpreted function
    per output component"""
    cls = u.mangle(fi.cls)
    tin = fi.params[0][1]
    nin, nout = tin.args[1], fi.ret.args[1]
    out = ['/* abstract child operator (driver TU): assumed contract */']
    for k in range(nout):
        out.append('T __CPROVER_uninterpreted_%s_%d_%d(%s, size_t, size_t);' % (cls, nin, k, ', '.join(['T'] * nin)))
    out.append(fi.sig)
    pn = [p[0] for p in fi.params]
    for k in range(nout):
        out.append('  __CPROVER_ensures(__CPROVER_return_value.c[%d] == __CPROVER_uninterpreted_%s_%d_%d(%s, %s._data.id, %s))' % (
            k, cls, nin, k, ', '.join('%s.c[%d]' % (pn[0], i) for i in range(nin)), pn[1], pn[2]))
    out.append('  __CPROVER_assigns()')
    out.append(';')
    return out


def ensure_type(u, name):
    """make sure the C struct `name` used by a lemma body is defined (lemmas name types, not functions)"""
    if name in u.type_done and u.type_done[name] is not None:
        return
    m = re.match(r'arr_T_(\d+)$', name)
    if m:
        u.cty(bs2c.Ty('std::array', [bs2c.Ty('double'), int(m.group(1))]))
        return
    m = re.match(r'vec_arr_T_(\d+)$', name)
    if m:
        u.cty(bs2c.Ty('std::vector', [bs2c.Ty('std::array', [bs2c.Ty('double'), int(m.group(1))])]))
        return
    if name == 'vec_T':
        u.cty(bs2c.Ty('std::vector', [bs2c.Ty('double')]))
        return
    if name == 'opt_size':
        u.cty(bs2c.Ty('std::optional', [bs2c.Ty('unsigned long')]))
        return
    if name.startswith('bs_'):
        return      # a ghost type of rt/spec.h
    for key in list(u.records):
        try:
            t = u.canon(bs2c.parse_type(key.replace(',', ', ')))
            if u.mangle(t) == name:
                u.cty(t)
                return
        except ExtractionError:
            continue
    raise Undecided('lemma uses the unknown type struct %s' % name)


def _components(u, t):
    if t.name == 'std::array':
        out = []
        for i in range(t.args[1]):
            out += ['.c[%d]%s' % (i, c) for c in _components(u, t.args[0])]
        return out
    return ['']


def vec_eq_shim(u, m):
    """std::vector<X>::operator== as an assumed contract from the C++ standard, in witness form: equal => same
    length and equal elements at the arbitrary position gr; different => different lengths or the elements at
    the witness position bs_veq_w differ"""
    info = u.type_done[m]
    comps = _components(u, info[1])
    eq = lambda i: '(' + ' && '.join('a.d[%s]%s == b.d[%s]%s' % (i, c, i, c) for c in comps) + ')'
    return ['/* std::vector operator== (assumed contract, witness form) */',
            '_Bool %s_eq(struct %s a, struct %s b)' % (m, m, m),
            '  __CPROVER_ensures(__CPROVER_return_value ==> (a.n == b.n && (!(gr < a.n && gr < BS_CAP) || %s)))' % eq('gr'),
            '  __CPROVER_ensures(!__CPROVER_return_value ==> (a.n != b.n || (bs_veq_w < a.n && bs_veq_w < BS_CAP && !%s)))' % eq('bs_veq_w'),
            '  __CPROVER_assigns(bs_veq_w)',
            ';']


def nlines(out):
    """number of the last line of the text whose pieces are `out` (a piece may span several lines)"""
    return sum(x.count('\n') + 1 for x in out)


def gen_c(b, blocks, path):
    mode = 'IEEE' if b.mode == 'IEEE' else 'EXACT'
    u = get_unit(b.unit, blocks, b.mode)
    byname = {x.name: x for x in blocks if x.kind == 'function' and x.mode == b.mode}
    if b.kind == 'function':
        byname[b.fn] = b          # the variant under proof supplies the clauses of its own function
    # `replace f#variant`: calls of f are replaced by the contract of the block named f#variant
    rep_names = []
    for r_ in b.replace:
        if '#' in r_:
            if r_ not in byname:
                raise Undecided('contract block %s names the unknown variant %s' % (b.name, r_))
            byname[r_.split('#')[0]] = byname[r_]
            rep_names.append(r_.split('#')[0])
        else:
            rep_names.append(r_)
    roots = []
    if b.kind == 'function':
        if b.fn not in u.fn_by_cname:
            raise Undecided('contract block %s (%s:%d) matches no instantiated function' % (b.name, b.file, b.line))
        roots.append(b.fn)
    # a callee named in `replace` that the function no longer calls (or that is not instantiated any more) is
    # simply not replaced: a refactoring of the call structure must not make the block undecided
    b.replace_eff = []
    # lemma bodies name functions directly
    if b.kind == 'lemma':
        for w in set(re.findall(r'\b[A-Za-z_][A-Za-z_0-9]*\b', ' '.join(b.body))):
            if w in u.fn_by_cname:
                roots.append(w)
    if b.kind == 'lemma':
        for nm in sorted(set(re.findall(r'\bstruct (\w+)', ' '.join(b.body)))):
            ensure_type(u, nm)
    start = len(u.order)
    for r in roots:
        fi = u.fn_by_cname[r]
        try:
            u.get_info(fi)
        except ExtractionError as e:
            fi.in_progress = False
            raise Undecided('extraction of %s failed: %s' % (r, e))
    # transitive closure of callees of the roots
    need, todo = [], list(roots)
    seen = set()
    while todo:
        nm = todo.pop()
        if nm in seen:
            continue
        seen.add(nm)
        fi = u.fn_by_cname[nm]
        need.append(fi)
        for c in sorted(getattr(fi, 'calls', None) or []):
            todo.append(c)
    b.replace_eff = [r for r in rep_names if r in seen and r != b.fn]
    for r_ in b.replace_eff:
        cb_ = byname.get(r_)
        for nm, ax in (getattr(cb_, 'axioms', None) or {}).items():
            if b.axioms.get(nm) != ax:
                raise Undecided('contract block %s uses %s through its contract, which holds under axiom %s: the block must '
                                'declare the same axiom' % (b.name, r_, nm))
    order = [fi for fi in u.order if fi in need]
    for fi in need:
        if fi not in order:
            order.append(fi)
    out = []
    out.append('/* generated by bsv.py from %s -- do not edit */' % REPO)
    if mode == 'IEEE':
        out.append('#define BS_IEEE 1')
    out.append('#include "%s/rt/bs_rt_pre.h"' % ROOT)
    for k, v in sorted(u.enums.items()):
        out.append('#define %s %d' % (k, v))
    out += u.type_defs
    for fi in order:
        if fi.rstruct:
            out.append(fi.rstruct)
    out.append('#include "%s/rt/bs_rt_post.h"' % ROOT)
    out.append('#include "%s/rt/spec.h"' % ROOT)
    out.append('#include "%s/rt/harness.h"' % ROOT)
    used_text = '\n'.join('\n'.join(fi.body or []) for fi in order)
    for kind, m in sorted(u.shim_need):
        if kind == 'vec_eq' and m != 'vec_T' and (m + '_eq(') in used_text:
            out += vec_eq_shim(u, m)
    for fi in order:
        if not getattr(fi, 'abstract', False):
            out.append(fi.sig + ';')
    linemap = {}      # line number -> (function, kind, tags, text)
    for fi in order:
        cb = byname.get(fi.cname)
        if getattr(fi, 'abstract', False) and '__transform_' in fi.cname:
            tab = [t for t in getattr(b, 'abstable', []) if t[0] == fi.cname]
            out += abstract_decl(u, fi, tab[0] if tab else None)
            continue
        if getattr(fi, 'abstract', False):
            # a member of an abstract class of the driver TU (the linear solver): declared only, under its assumed contract
            if cb is None or not getattr(cb, 'assumed', None):
                raise Undecided('abstract function %s has no assumed contract block' % fi.cname)
            out.append('/* abstract (driver TU): assumed contract -- %s */' % cb.assumed)
            out.append(fi.sig)
            cls_ = clause_lines(cb, enforce=False)
            if not any(k == 'requires' for k, t_, x in cls_):
                out.append('  __CPROVER_requires(1)')
            if not any(k == 'ensures' for k, t_, x in cls_):
                out.append('  __CPROVER_ensures(1)')
            for kind, tags, text in cls_:
                out.append('  ' + text)
            out.append(';')
            b.assumes = sorted(set(getattr(b, 'assumes', [])) | {'%s: %s' % (fi.cname, cb.assumed)})
            continue
        out.append('/* %s:%s-%s */' % (fi.src[0], fi.src[1], fi.src[2]))
        out.append(fi.sig)
        if cb is not None and (fi.cname == b.fn or fi.cname in b.replace_eff):
            for kind, tags, text in clause_lines(cb, enforce=(fi.cname == b.fn)):
                out.append('  ' + text)
                linemap[nlines(out)] = (fi.cname, kind, tags, text)
        out.append('{')
        out += fi.body
        out.append('}')
    # harness
    hname = 'h_' + re.sub(r'\W', '_', b.name)
    out.append('void %s(void)' % hname)
    out.append('{')
    if not getattr(b, 'noinit', False):
        out.append('  bs_harness_init();')
    if b.kind == 'function':
        fi = u.fn_by_cname[b.fn]
        args = []
        if fi.is_method and not fi.is_static and not fi.is_ctor:
            out.append('  %s self;' % u.cty(fi.cls))
            args.append('self')
        for nm, t, pid in fi.params:
            if nm in b.args:
                out.append('  %s %s = %s;' % (u.cty(t.base()), nm, b.args[nm]))
            else:
                out.append('  %s %s;' % (u.cty(t.base()), nm))
            args.append(nm)
        for fname, optype, opvar in getattr(b, 'abstable', []):
            out.append('  { struct bs_tab_%s bs_tt; BS_TAB_%s = bs_tt; BS_OPD_%s = %s; }' % (fname, fname, fname, opvar))
        for s in b.pre:
            out.append('  ' + s)
        call = '%s(%s)' % (b.fn, ', '.join(args))
        if fi.rkind == 'void':
            out.append('  %s;' % call)
        else:
            rt = fi.sig.split(' ' + fi.cname + '(')[0]
            out.append('  %s bs_result = %s;' % (rt, call))
        for s in b.post:
            out.append('  ' + s)
            linemap[nlines(out)] = (hname, 'post', None, s)
    else:
        for s in b.body:
            out.append('  ' + s)
            linemap[nlines(out)] = (hname, 'body', None, s)
    out.append('  BS_CANARY();')
    out.append('}')
    txt = '\n'.join(out) + '\n'
    with open(path, 'w') as f:
        f.write(txt)
    srcs = {fi.cname: '%s:%s-%s' % (os.path.relpath(fi.src[0], REPO) if fi.src[0] and fi.src[0].startswith(REPO) else fi.src[0], fi.src[1], fi.src[2]) for fi in order}
    return hname, linemap, srcs, hashlib.sha256(txt.encode()).hexdigest()[:16]


# --------------------------------------------------------------------------
#  running the tools
# --------------------------------------------------------------------------
def sh(cmd, timeout, env=None, stdout_path=None):
    pre = 'ulimit -v %d; ' % MEMLIMIT_KB
    t0 = time.time()
    try:
        if stdout_path:
            with open(stdout_path, 'w') as f:
                p = subprocess.run(['bash', '-c', pre + 'exec "$@"', 'sh'] + cmd, stdout=f, stderr=subprocess.PIPE,
                                   text=True, timeout=timeout, env=env)
            return p.returncode, '', p.stderr, time.time() - t0
        p = subprocess.run(['bash', '-c', pre + 'exec "$@"', 'sh'] + cmd, stdout=subprocess.PIPE,
                           stderr=subprocess.PIPE, text=True, timeout=timeout, env=env)
        return p.returncode, p.stdout, p.stderr, time.time() - t0
    except subprocess.TimeoutExpired:
        return -9, '', 'timeout', time.time() - t0


PROP_RE = re.compile(r'^\[(\S+)\] (?:line (\d+) )?(.*): (SUCCESS|FAILURE|UNKNOWN|ERROR)$')


def parse_cbmc_json(txt):
    """parse cbmc's plain-text result listing (the JSON UI is two orders of magnitude larger)"""
    if '** Results:' not in txt:
        return None, txt[-600:]
    res = []
    msgs = []
    for line in txt.split('\n'):
        m = PROP_RE.match(line)
        if m:
            res.append({'property': m.group(1), 'sourceLocation': {'line': m.group(2)} if m.group(2) else {},
                        'description': m.group(3), 'status': m.group(4)})
        elif re.search(r'warning|ignoring|unknown|error', line, re.I) and not line.startswith('['):
            msgs.append(line)
    if 'VERIFICATION SUCCESSFUL' not in txt and 'VERIFICATION FAILED' not in txt:
        return None, txt[-600:]
    return res, '\n'.join(msgs)


def solver_env(solver):
    env = dict(os.environ)
    if solver == 'z3new':
        env['PATH'] = os.path.join(ROOT, 'bin', 'z3new') + ':' + env['PATH']
    return env


def cbmc_cmd(gb, solver, extra):
    flag = '--z3' if solver in ('z3', 'z3new') else '--' + solver
    base = list(CBMC_FLAGS)
    for opt in ('--unwind', '--object-bits'):
        if opt in extra:
            # cbmc keeps the FIRST of two equal options: the default must go when a run sets its own
            i = base.index(opt)
            del base[i:i + 2]
    return ['cbmc', flag] + base + extra + [gb]


_uniq = itertools.count()
import threading  # noqa: E402
# at most NPROC/2 portfolios (two solver processes each) run at any time, whatever the nesting of thread pools
_slots = threading.BoundedSemaphore(max(1, int(os.environ.get('BSV_NPROC', str(os.cpu_count() or 8))) // 2))


SOLVER_TIME = {}     # per block (path base): seconds during which a solver portfolio of that block was actually running
_st_lock = threading.Lock()


def portfolio(gb, solvers, extra, timeout):
    """run the solvers in parallel; the first one that gives a definitive answer wins, the others are killed"""
    with _slots:
        t0 = time.time()
        try:
            return _portfolio(gb, solvers, extra, timeout)
        finally:
            with _st_lock:
                k = re.sub(r'\.[a-z]{1,2}\.gb$', '', gb)
                SOLVER_TIME[k] = SOLVER_TIME.get(k, 0.0) + time.time() - t0


def _portfolio(gb, solvers, extra, timeout):
    # cbmc writes the SMT problem (tens of MB) to $TMPDIR and leaves it behind when it is killed: a directory of our own
    tdir = tempfile.mkdtemp(prefix='smt.', dir=SCRATCH)
    try:
        return _portfolio_in(gb, solvers, extra, timeout, tdir)
    finally:
        shutil.rmtree(tdir, ignore_errors=True)


def _portfolio_in(gb, solvers, extra, timeout, tdir):
    procs = []
    t0 = time.time()
    for s in solvers:
        outp = '%s.%s.%d.out' % (gb, s, next(_uniq))
        f = open(outp, 'w')
        p = subprocess.Popen(['bash', '-c', 'ulimit -v %d; exec "$@"' % MEMLIMIT_KB, 'sh'] + cbmc_cmd(gb, s, extra),
                             stdout=f, stderr=subprocess.PIPE, env=dict(solver_env(s), TMPDIR=tdir), start_new_session=True)
        procs.append((s, p, f, outp))
    outs, winner = [], None
    winner_abort = False
    pending = list(procs)
    while pending and winner is None and not winner_abort:
        for item in list(pending):
            s, p, f, outp = item
            if p.poll() is not None:
                pending.remove(item)
                f.close()
                dt = time.time() - t0
                txt = open(outp).read()
                res, msgs = parse_cbmc_json(txt)
                if res is None:
                    err_full = p.stderr.read().decode(errors='replace') if p.stderr else ''
                    err = err_full[-500:]
                    # cbmc aborts in pointer_logic.cpp while *decoding a model* of a harness that holds rational data
                    # behind dfcc pointers (DESIGN R8): the solver answered sat
                    abort_sat = 'pointer_logic.cpp' in txt or 'pointer_logic.cpp' in err_full
                    outs.append({'solver': s, 'status': 'abort-sat' if abort_sat else 'error', 'time': dt,
                                 'msg': ('pointer_logic abort after sat; ' if abort_sat else '') + (msgs or '') + err, 'rc': p.returncode})
                    if abort_sat:
                        winner_abort = True
                else:
                    o = {'solver': s, 'status': 'done', 'time': dt, 'results': res, 'msg': msgs, 'rc': p.returncode}
                    outs.append(o)
                    if all(x.get('status') in ('SUCCESS', 'FAILURE') for x in res):
                        winner = o
                        break
        if winner is None and pending and not winner_abort:
            if time.time() - t0 > timeout:
                break
            time.sleep(0.05)
    for s, p, f, outp in pending:
        try:
            os.killpg(p.pid, 9)
        except OSError:
            pass
        p.wait()
        f.close()
        if winner is None:
            outs.append({'solver': s, 'status': 'timeout', 'time': time.time() - t0})
    for s, p, f, outp in procs:
        try:
            os.remove(outp)
        except OSError:
            pass
    if winner is not None:
        outs.remove(winner)
        outs.insert(0, winner)
    return outs


def prepare_loops(gb_in, gb_out, ctext, cfile, b):
    """dfcc's --apply-loop-contracts mis-handles loops that have no contract (locals assigned in them are
    reported as not assignable), so when a unit has contracted loops every other loop -- they all have
    template-constant bounds -- is unwound beforehand by goto-instrument, with unwinding assertions."""
    lines = ctext.split('\n')
    contracted = set()
    for i, l in enumerate(lines):
        if re.match(r'\s*(for|while) \(', l) and ('__CPROVER_loop_invariant(' in l or (
                i + 1 < len(lines) and re.match(r'\s*__CPROVER_(assigns|loop_invariant|decreases)\(', lines[i + 1]))):
            contracted.add(i + 1)
    if not contracted:
        return gb_in, []
    rc, out, err, dt = sh(['goto-instrument', '--show-loops', gb_in], 120)
    ids = []
    kdef = getattr(b, 'unwind', None) or 10
    for m in re.finditer(r'Loop (\S+):\n\s+file (\S+) line (\d+) function', out):
        lid, f, ln = m.group(1), m.group(2), int(m.group(3))
        if os.path.abspath(f) == os.path.abspath(cfile) and ln in contracted:
            continue
        k = kdef
        if os.path.abspath(f) == os.path.abspath(cfile) and 0 < ln <= len(lines):
            # template-constant bound written out in the loop condition: unwind exactly that far
            mm = re.search(r'(<=|<|!=)\s*\(?([0-9UL+\-() ]+?)\)*;', lines[ln - 1])
            if mm:
                try:
                    k = int(eval(re.sub(r'[UL]', '', mm.group(2)))) + (2 if mm.group(1) == '<=' else 1)
                except Exception:
                    k = kdef
        ids.append('%s:%d' % (lid, max(1, k)))
    if not ids:
        return gb_in, ['--apply-loop-contracts']
    rc, out, err, dt = sh(['goto-instrument', '--unwindset', ','.join(ids),
                           '--unwinding-assertions', gb_in, gb_out], 300)
    if rc != 0:
        raise Undecided('pre-unwinding failed: ' + (err + out)[-800:])
    return gb_out, ['--apply-loop-contracts']


FAST_TIMEOUT = int(os.environ.get('BSV_FAST_TIMEOUT', '45'))
HARD_RE = re.compile(r'\.(postcondition|loop_invariant_base|loop_invariant_step|loop_decreases|assertion|precondition|loop_step_unwinding)\.')


def list_properties(gb):
    rc, out, err, dt = sh(['cbmc'] + CBMC_FLAGS + ['--show-properties', gb], 120)
    ids = re.findall(r'^Property (\S+):', out, re.M)
    return ids


def decide(gb, b, tmo, only=None, extra=None, single=None):
    extra0 = list(extra or [])
    """all obligations of one instrumented program: first in one query per solver; if no solver settles
    that within FAST_TIMEOUT, obligation by obligation (the conjunction is often much harder than its parts)"""
    solvers = b.solvers or SOLVERS
    # blocks with loop contracts go obligation by obligation at once: their single query rarely finishes
    if single is not None:
        # bounded stand-ins: symbolic execution of the unwound program dominates, so one query for everything first
        outs = portfolio(gb, solvers, extra0, single)
    else:
        outs = [] if (b.loops or getattr(b, 'split', False) or only is not None) else portfolio(gb, solvers, extra0, min(tmo, FAST_TIMEOUT))
    if outs and outs[0]['status'] == 'done' and all(x.get('status') in ('SUCCESS', 'FAILURE') for x in outs[0]['results']):
        for p in outs[0]['results']:
            p['solver'] = outs[0]['solver']
        return outs[0]['results'], 'single query, ' + outs[0]['solver']
    props = list_properties(gb)
    if not props:
        return None, '; '.join('%s:%s %s' % (o['solver'], o['status'], (o.get('msg') or '')[:200]) for o in outs)
    if only is not None:
        props = [p for p in props if p in set(only)]
    if getattr(b, 'only_re', None):
        # a case twin decides only the obligations the case assumption can influence; the others are the twin block's
        props = [p for p in props if re.search(b.only_re, p)]
    hard = [p for p in props if HARD_RE.search(p) and '__CPROVER_contracts' not in p]
    easy = [p for p in props if p not in hard]
    merged = {}

    def one(plist):
        extra = list(extra0)
        for p in plist:
            extra += ['--property', p]
        o = portfolio(gb, solvers, extra, tmo)
        return plist, o
    CH = 24
    groups = [[p] for p in hard] + [easy[i:i + CH] for i in range(0, len(easy), CH)]

    def one_retry(plist):
        plist, o = one(plist)
        decided = {x['property'] for c in o if c['status'] == 'done' for x in c['results']
                   if x.get('status') in ('SUCCESS', 'FAILURE')}
        if len(plist) > 1 and not set(plist) <= decided:
            # a chunk that does not finish is retried obligation by obligation
            res = []
            for p in plist:
                if p not in decided:
                    res.append(one([p]))
            return [(plist, o)] + res
        return [(plist, o)]
    with cf.ThreadPoolExecutor(max_workers=8) as ex:
        for plist, o in [item for sub in ex.map(one_retry, groups) for item in sub]:
            got = {}
            for cand in o:
                if cand['status'] == 'done':
                    for x in cand['results']:
                        if x.get('status') in ('SUCCESS', 'FAILURE') and x['property'] not in got:
                            x['solver'] = cand['solver']
                            got[x['property']] = x
                        elif x['property'] not in got:
                            merged.setdefault(x['property'], dict(x, solver=cand['solver']))
            for k, v in got.items():
                merged[k] = v
            if len(plist) == 1 and plist[0] not in got and any(c['status'] == 'abort-sat' for c in o):
                merged[plist[0]] = {'property': plist[0], 'description': 'cbmc aborted while decoding the counter-model of this single obligation (sat)',
                                    'status': 'FAILURE', 'sourceLocation': {}, 'solver': [c['solver'] for c in o if c['status'] == 'abort-sat'][0]}
            for p in plist:
                if p not in merged:
                    merged[p] = {'property': p, 'description': 'no answer (timeout or solver error)', 'status': 'UNKNOWN',
                                 'sourceLocation': {}, 'solver': None}
    return list(merged.values()), 'obligation by obligation (%d separate queries)' % len(groups)


def small_unwind_args(gb, cfile, cap):
    """unwinding for an instance with a small cap: data-dependent loops run at most cap + 1 times; loops with a literal
    bound in their condition get that bound (unwinding assertions stay on: a wrong guess is an UNKNOWN, never a pass)"""
    extra = ['--unwind', str(cap + 2)]
    lines = open(cfile).read().split('\n')
    rc, out, err, dt = sh(['goto-instrument', '--show-loops', gb], 120)
    us = []
    for m in re.finditer(r'Loop (\S+):\n\s+file (\S+) line (\d+) function', out or ''):
        lid, f, ln = m.group(1), m.group(2), int(m.group(3))
        if os.path.abspath(f) == os.path.abspath(cfile) and 0 < ln <= len(lines):
            mm = re.search(r'(<=|<|!=)\s*\(?([0-9UL+\-() ]+?)\)*;', lines[ln - 1])
            if mm:
                try:
                    us.append('%s:%d' % (lid, int(eval(re.sub(r'[UL]', '', mm.group(2)))) + (3 if mm.group(1) == '<=' else 2)))
                except Exception:
                    pass
    if us:
        extra += ['--unwindset', ','.join(us)]
    return extra


def refute_small(r, b, cfile, hname, cmd, ids, tmo, want_all=False):
    base = r.base
    defs = ['-D' + d for d in getattr(b, 'defines', [])]
    rc, out, err, dt = sh(['goto-cc', '--function', hname, '-DBS_CANARY()=', '-DBS_SMALLGRID=1', '-DBS_CAP=%dUL' % getattr(b, 'cap', 8)] + defs + ['-o', base + '.s.gb', cfile], 120)
    if rc != 0:
        return set()
    # the small instance ignores the loop contracts: every loop is unwound completely (at most BS_CAP + 1 iterations),
    # so the postconditions are checked against the loops themselves, not against their invariants
    cmd2 = [x for x in cmd if x != '--apply-loop-contracts'][:-2] + [base + '.s.gb', base + '.t.gb']
    rc, out, err, dt = sh(cmd2, 300)
    if rc != 0:
        return set()
    cap = getattr(b, 'cap', 8)
    extra = ['--unwind', str(max(10, cap + 2))]
    if want_all and cap < 8:
        extra = small_unwind_args(base + '.t.gb', cfile, cap)
    results, how = decide(base + '.t.gb', b, min(tmo, 120) if not want_all else tmo, only=ids, extra=extra,
                          single=None)
    if want_all:
        return results
    if results is None:
        return set()
    return {x['property'] for x in results if x.get('status') == 'FAILURE'}


class BlockResult:
    def __init__(self, b):
        self.block = b
        self.obligations = []     # dicts: id, desc, status, tags, line, solver
        self.status = 'undecided'  # proved | failed | undecided
        self.reason = ''
        self.solver = None
        self.time = 0.0
        self.canary = None
        self.srcs = {}
        self.chash = None
        self.cfile = None
        self.hname = None


def classify(prop, linemap, hname):
    """tags of one cbmc property"""
    pid = prop.get('property', '')
    desc = prop.get('description', '')
    line = None
    sl = prop.get('sourceLocation') or {}
    if 'line' in sl:
        try:
            line = int(sl['line'])
        except ValueError:
            line = None
    m = re.search(r'\[((?:C\d+ ?)+)\]', desc)
    if m:
        return set(m.group(1).split())
    if '.postcondition.' in pid and line in linemap and linemap[line][2]:
        return set(linemap[line][2])
    mpc = re.match(r'(.+)\.postcondition\.(\d+)$', pid)
    if mpc and line is None:
        # no source line (cbmc aborted while decoding the model): the k-th postcondition is the k-th ensures clause
        ens = [linemap[l] for l in sorted(linemap) if linemap[l][0] == mpc.group(1) and linemap[l][1] == 'ensures']
        k = int(mpc.group(2))
        if 1 <= k <= len(ens) and ens[k - 1][2]:
            prop.setdefault('sourceLocation', {})['line'] = str([l for l in sorted(linemap) if linemap[l] is ens[k - 1]][0])
            return set(ens[k - 1][2])
    if re.search(r'\.(array_bounds|pointer_dereference|overflow|division-by-zero|pointer_arithmetic|pointer|conversion|undefined-shift)\.', pid) \
            or 'overflow' in pid or 'bounds' in pid:
        if '__CPROVER_contracts' in pid:
            return {'support'}
        return {'C09'}
    if '[model-limit]' in desc:
        # a limit of the verification model (the integer -> T table), not a statement about the code: when it is hit the
        # block is undecided, never a violation
        return {'modellimit'}
    if '[shim]' in desc:
        return {'support'}
    if '[canary]' in desc:
        return {'canary'}
    return {'support'}


def prepare_block(b, blocks):
    """front end (serial: the translator is not thread safe)"""
    r = BlockResult(b)
    os.makedirs(SCRATCH, exist_ok=True)
    base = os.path.join(SCRATCH, re.sub(r'\W', '_', b.name) + ('_ieee' if b.mode == 'IEEE' else ''))
    cfile = base + '.c'
    r.base = base
    try:
        hname, linemap, srcs, chash = gen_c(b, blocks, cfile)
    except Undecided as e:
        r.reason = str(e)
        return r
    except ExtractionError as e:
        r.reason = 'extraction: %s' % e
        return r
    r.srcs, r.chash, r.cfile, r.hname = srcs, chash, cfile, hname
    r.linemap = linemap
    return r


CACHE = os.environ.get('BSV_CACHE')   # opt-in (mutation campaigns): proved blocks keyed by the exact generated C text


def _cache_key(r):
    b = r.block
    txt = open(r.cfile).read()
    txt = re.sub(r'/\*[^*\n]*\*/', '', txt)      # provenance comments (paths, line ranges)
    txt = txt.replace(ROOT, '$ROOT')             # (a campaign runs from a snapshot of the committed /verif elsewhere)
    cfg = repr((b.name, b.mode, b.kind, b.fn, getattr(b, 'defines', []), b.bounded, getattr(b, 'cap', 8), getattr(b, 'canarycap', None),
                b.solvers, getattr(b, 'replace_eff', b.replace), getattr(b, 'recursive', False), b.noharness, b.timeout, TIMEOUT, FAST_TIMEOUT,
                getattr(b, 'unwind', None), getattr(b, 'split', None), getattr(b, 'only_re', None)))
    h = hashlib.sha256()
    for part in (txt, cfg) + tuple(open(os.path.join(ROOT, 'rt', f)).read() for f in sorted(os.listdir(os.path.join(ROOT, 'rt')))):
        h.update(part.encode())
    return h.hexdigest()


def run_block(r, blocks, keep=False, verbose=False):
    if r.cfile is None or not CACHE:
        r = _run_block(r, blocks, keep, verbose)
        r.solver_s = SOLVER_TIME.get(getattr(r, 'base', None), 0.0)
        return r
    key = os.path.join(CACHE, _cache_key(r) + '.json')
    if os.path.exists(key) and os.environ.get('BSV_CACHE_MODE', 'rw') != 'w':
        d = json.load(open(key))
        r.obligations, r.status, r.reason, r.solver, r.canary = d['obligations'], d['status'], d['reason'], d['solver'], d['canary']
        r.time, r.cached = 0.0, True
        r.bounded_only = False
        return r
    r = _run_block(r, blocks, keep, verbose)
    r.solver_s = SOLVER_TIME.get(r.base, 0.0)
    if r.status in ('proved', 'bounded'):
        os.makedirs(CACHE, exist_ok=True)
        with open(key + '.tmp%d' % os.getpid(), 'w') as f:
            json.dump({'obligations': r.obligations, 'status': r.status, 'reason': r.reason, 'solver': r.solver, 'canary': r.canary}, f)
        os.replace(key + '.tmp%d' % os.getpid(), key)
    return r


def _run_block(r, blocks, keep=False, verbose=False):
    b = r.block
    if r.cfile is None:
        return r
    t0 = time.time()
    base, cfile, hname, linemap = r.base, r.cfile, r.hname, r.linemap
    tmo = b.timeout or TIMEOUT
    defs = ['-D' + d for d in getattr(b, 'defines', [])]
    stale_loop = None
    if not b.bounded:
        rc, out, err, dt = sh(['goto-cc', '--function', hname, '-DBS_CANARY()='] + defs + ['-o', base + '.a.gb', cfile], 120)
        if rc != 0 and 'failed to find symbol' in (err or out) and b.kind == 'function':
            # a loop contract names a local variable that the function no longer has (the loop was rewritten): the contract
            # cannot be applied, but the function-level clauses can still be REFUTED in the small instance, where every loop
            # is unwound completely and loop contracts play no role.  The loop-contract lines are blanked (line numbers kept).
            stale_loop = (err or out)[-400:]
            ltxt = open(cfile).read().split('\n')
            ltxt = ['' if re.match(r'\s{4,}__CPROVER_(assigns|loop_invariant|decreases)\(', l) else l for l in ltxt]
            cfile = cfile[:-2] + '.nl.c'
            with open(cfile, 'w') as f:
                f.write('\n'.join(ltxt))
        elif rc != 0:
            r.reason = 'goto-cc failed: ' + (err or out)[-1500:]
            return r
    cmd = ['goto-instrument', '--dfcc', hname]
    if b.kind == 'function' and not b.noharness:
        cmd += ['--enforce-contract-rec' if getattr(b, 'recursive', False) else '--enforce-contract', b.fn]
    for g in getattr(b, 'replace_eff', b.replace):
        cmd += ['--replace-call-with-contract', g]
    ctext = open(cfile).read()
    body_text = ctext[ctext.index('#include "%s/rt/harness.h"' % ROOT):]
    abstract_fns = sorted(set(re.findall(r'\b(AbsUp_\w+__transform_\d+)\(', body_text)))
    for shim in SHIM_CONTRACTS + sorted(set(re.findall(r'\b(vec_\w+_eq)\(', body_text))) + abstract_fns:
        if re.search(r'\b%s\(' % shim, body_text):
            cmd += ['--replace-call-with-contract', shim]
    if b.bounded or stale_loop is not None:
        # a bounded stand-in is examined in the small instance only: the unbounded program is not built
        # (likewise a function whose loop contract no longer fits it: refutation only)
        cmd += [base + '.a.gb', base + '.b.gb']
    else:
        try:
            src_gb, loop_flags = prepare_loops(base + '.a.gb', base + '.u.gb', ctext, cfile, b)
        except Undecided as e:
            r.reason = str(e)
            return r
        r.loop_flags = loop_flags
        cmd += loop_flags + [src_gb, base + '.b.gb']
        rc, out, err, dt = sh(cmd, 300)
        if rc != 0:
            r.reason = 'goto-instrument failed: ' + (err + out)[-1500:]
            return r
    if b.bounded:
        # bounded stand-in (never counted as proved): only the small instance is examined -- every vector capped at 8
        # elements, loops unwound completely, ghost relations defined from the contents, no quantifier left
        rf_all = refute_small(r, b, cfile, hname, cmd, None, tmo, want_all=True)
        if rf_all is None:
            r.reason = 'bounded stand-in: the small instance could not be decided'
            r.time = time.time() - t0
            return r
        for p in rf_all:
            r.obligations.append({'id': p.get('property'), 'desc': p.get('description'), 'status': p.get('status'),
                                  'tags': sorted(classify(p, linemap, hname)),
                                  'line': (p.get('sourceLocation') or {}).get('line'), 'solver': p.get('solver'),
                                  'bounded': b.bounded})
        bad = [x for x in r.obligations if x['status'] == 'FAILURE']
        und = [x for x in r.obligations if x['status'] not in ('SUCCESS', 'FAILURE')]
        r.solver = ','.join(sorted({x.get('solver') or '?' for x in r.obligations}))
        if bad:
            r.status, r.reason = 'failed', ', '.join(x['id'] for x in bad[:6])
        elif und or not r.obligations:
            r.status, r.reason = 'undecided', 'bounded stand-in undecided: ' + ', '.join(x['id'] for x in und[:4])
        else:
            r.status, r.reason = 'bounded', 'bounded stand-in passed: ' + b.bounded
        r.canary = 'n/a (bounded stand-in)'
        if r.status == 'bounded':
            # vacuity guard for the bounded instance as well: the end of the harness must be reachable
            cap = getattr(b, 'cap', 8)
            rc1, o1, e1, d1 = sh(['goto-cc', '--function', hname,
                                  '-DBS_CANARY()=__CPROVER_assert(0, "[canary] end of harness reachable")',
                                  '-DBS_SMALLGRID=1', '-DBS_CAP=%dUL' % cap] + defs + ['-o', base + '.c.gb', cfile], 120)
            ccmd = [x for x in cmd if x != '--apply-loop-contracts'][:-2] + [base + '.c.gb', base + '.d.gb']
            rc2, o2, e2, d2 = sh(ccmd, 300)
            if rc1 != 0 or rc2 != 0:
                r.status, r.reason = 'undecided', 'canary build failed: ' + (e2 or e1 or '')[-300:]
            else:
                n_assert = sum(x.count('__CPROVER_assert(') for x in (b.body + b.post)) + 1
                cun = small_unwind_args(base + '.d.gb', cfile, cap) if cap < 8 else ['--unwind', str(max(10, cap + 2))]
                co = portfolio(base + '.d.gb', b.solvers or SOLVERS, cun + ['--object-bits', '16', '--property', '%s.assertion.%d' % (hname, n_assert)], tmo)
                cd = [x for x in co if x['status'] == 'done' and any('[canary]' in (p.get('description') or '') for p in x['results'])]
                if cd and any(p.get('status') == 'FAILURE' for p in cd[0]['results']):
                    r.canary = 'reachable'
                elif any(x['status'] == 'abort-sat' for x in co):
                    r.canary = 'reachable(abort)'
                elif cd and all(p.get('status') == 'SUCCESS' for p in cd[0]['results']):
                    r.canary = 'UNREACHABLE'
                    r.status, r.reason = 'undecided', 'vacuous: the end of the harness is unreachable in the bounded instance (contradictory assumptions?)'
                else:
                    r.canary = 'unknown'
                    r.status, r.reason = 'undecided', 'canary undecided in the bounded instance'
        r.time = time.time() - t0
        return r
    if stale_loop is not None:
        res_s = refute_small(r, b, cfile, hname, cmd, None, tmo, want_all=True)
        for p in res_s or []:
            st = p.get('status')
            r.obligations.append({'id': p.get('property'), 'desc': p.get('description'),
                                  'status': 'FAILURE' if st == 'FAILURE' else 'UNKNOWN',
                                  'tags': sorted(classify(p, linemap, hname)),
                                  'line': (p.get('sourceLocation') or {}).get('line'), 'solver': p.get('solver'),
                                  'refuted_in': 'quantifier-free instance: every vector capped at 8 elements, loops unwound'})
        r.obligations = [x for x in r.obligations if 'modellimit' not in x['tags'] and '.unwind.' not in (x['id'] or '')
                         or x['status'] != 'FAILURE']
        r.solver = ','.join(sorted({x.get('solver') or '?' for x in r.obligations}))
        bad = [x for x in r.obligations if x['status'] == 'FAILURE']
        if bad:
            r.status, r.reason = 'failed', ', '.join(x['id'] for x in bad[:6])
        else:
            r.status, r.reason = 'undecided', 'a loop contract no longer fits the function (%s) and the loop-free small instance shows no failure' % stale_loop.strip().split('\n')[0][:200]
        r.time = time.time() - t0
        return r
    results, how = decide(base + '.b.gb', b, tmo)
    r.how = how
    if results is None:
        r.reason = 'no solver decided: ' + how
        r.time = time.time() - t0
        return r
    for p in results:
        r.obligations.append({'id': p.get('property'), 'desc': p.get('description'), 'status': p.get('status'),
                              'tags': sorted(classify(p, linemap, hname)),
                              'line': (p.get('sourceLocation') or {}).get('line'),
                              'solver': p.get('solver')})
    r.solver = ','.join(sorted({p.get('solver') or '?' for p in results}))
    for x in r.obligations:
        if x['status'] == 'FAILURE' and 'modellimit' in x['tags']:
            x['status'] = 'UNKNOWN'
            x['desc'] = (x['desc'] or '') + ' -- a limit of the verification model was reached: undecided, not a violation'
    unwind_fail = [x for x in r.obligations if x['status'] == 'FAILURE' and '.unwind.' in (x['id'] or '')]
    bad = [x for x in r.obligations if x['status'] == 'FAILURE' and x not in unwind_fail]
    und = [x for x in r.obligations if x['status'] not in ('SUCCESS', 'FAILURE')]
    r.bounded_only = False
    LOOP_OBL = re.compile(r'\.(loop_invariant_base|loop_invariant_step|loop_decreases|loop_assigns|loop_step_unwinding)\.')
    loop_bad = [x for x in bad if LOOP_OBL.search(x['id'] or '')]
    if (und or unwind_fail or (loop_bad and len(loop_bad) == len(bad))):
        # Small instance (every vector capped at 8 elements, ghost relations defined from the contents, all
        # loops unwound completely): a failure there is a failure of the general obligation; a success there
        # proves nothing.  It decides (a) obligations the solvers cannot refute in the presence of quantified
        # assumptions and (b) functions that have acquired a loop without a loop contract -- then *every*
        # obligation is re-examined, because truncated paths make the unbounded run's successes meaningless.
        # a broken loop invariant masks the postconditions (they are proved from the invariant): re-examine all
        # an undecided loop obligation has no counterpart in the loop-free instance either: all postconditions are re-examined
        loop_und = [x for x in und if LOOP_OBL.search(x['id'] or '')]
        ids = None if (unwind_fail or loop_bad or loop_und) else [x['id'] for x in und]
        rf = refute_small(r, b, cfile, hname, cmd, ids, tmo)
        for x in r.obligations:
            if x['id'] in rf and '.unwind.' not in (x['id'] or '') and 'modellimit' not in x['tags']:
                x['status'] = 'FAILURE'
                x['refuted_in'] = 'quantifier-free instance: every vector capped at 8 elements'
        if unwind_fail:
            r.bounded_only = True
            for x in unwind_fail:
                x['status'] = 'UNKNOWN'
                x['desc'] = (x['desc'] or '') + ' -- a loop whose bound depends on run-time data has no loop contract'
        bad = [x for x in r.obligations if x['status'] == 'FAILURE']
        und = [x for x in r.obligations if x['status'] not in ('SUCCESS', 'FAILURE')]
    if not r.obligations:
        r.reason = 'no obligations generated'
    elif bad:
        r.status = 'failed'
        r.reason = ', '.join(x['id'] for x in bad[:6])
    elif und:
        r.status = 'undecided'
        r.reason = 'solver gave no answer for: ' + ', '.join(x['id'] for x in und[:6])
    else:
        r.status = 'proved'
    # vacuity canary: the end of the harness must be reachable under the preconditions
    if r.status == 'proved':
        rc, out, err, dt = sh(['goto-cc', '--function', hname,
                               '-DBS_CANARY()=__CPROVER_assert(0, "[canary] end of harness reachable")',
                               '-DBS_SMALLGRID=1', '-DBS_CAP=%dUL' % getattr(b, 'canarycap', getattr(b, 'cap', 8)), '-DBS_OPAQUE_MUL=1'] +
                              [d for d in defs if d != '-DBS_OPAQUE_MUL'] +
                              ['-o', base + '.c.gb', cfile], 120)
        # the canary run is a small instance too: no loop contracts (loops unwound), multiplication opaque
        if b.kind == 'lemma':
            try:
                src_gb2, lf2 = prepare_loops(base + '.c.gb', base + '.cu.gb', ctext, cfile, b)
            except Undecided:
                src_gb2, lf2 = base + '.c.gb', []
            ccmd = [x for x in cmd if x != '--apply-loop-contracts'][:-2] + lf2 + [src_gb2, base + '.d.gb']
        else:
            ccmd = [x for x in cmd if x != '--apply-loop-contracts'][:-2] + [base + '.c.gb', base + '.d.gb']
        rc2, out2, err2, dt2 = sh(ccmd, 300)
        if rc != 0 or rc2 != 0:
            r.status, r.reason = 'undecided', 'canary build failed: ' + (err2 or '')[-300:]
        else:
            n_assert = sum(x.count('__CPROVER_assert(') for x in (b.body + b.post)) + 1
            ccap = getattr(b, 'canarycap', getattr(b, 'cap', 8))
            cun = small_unwind_args(base + '.d.gb', cfile, ccap) if ccap < 8 else ['--unwind', '10']
            cargs = cun + ['--object-bits', '16', '--property', '%s.assertion.%d' % (hname, n_assert)]
            co = portfolio(base + '.d.gb', b.solvers or SOLVERS, cargs, tmo)
            if not any(x['status'] in ('done', 'abort-sat') for x in co):
                # no answer (a loaded machine): once more with twice the time before the block is called undecided
                co = portfolio(base + '.d.gb', b.solvers or SOLVERS, cargs, 2 * tmo)
            if any(x['status'] == 'done' and not any('[canary]' in (p.get('description') or '') for p in x['results']) for x in co):
                co = [{'solver': '-', 'status': 'error', 'msg': 'canary property not found'}]
            cd = [x for x in co if x['status'] == 'done']
            if cd and any(p.get('status') == 'FAILURE' for p in cd[0]['results']):
                r.canary = 'reachable'
            elif cd and all(p.get('status') == 'SUCCESS' for p in cd[0]['results']) and cd[0]['results']:
                r.canary = 'UNREACHABLE'
                r.status, r.reason = 'undecided', 'vacuous: the end of the harness is unreachable (contradictory requires?)'
            else:
                # cbmc may abort while decoding a model (DESIGN R8): an abort after "sat" still means reachable
                r.canary = 'reachable(abort)' if any(x['status'] == 'abort-sat' for x in co) else 'unknown'
                if r.canary == 'unknown':
                    r.status, r.reason = 'undecided', 'canary undecided'
    r.time = time.time() - t0
    if not keep and r.status == 'proved':
        for ext in ('.a.gb', '.b.gb', '.c.gb', '.d.gb'):
            try:
                os.remove(base + ext)
            except OSError:
                pass
    return r


def run_blocks(sel, blocks, verbose=False, keep=False):
    results = []
    # front-end work (clang + translation) is done up front and serially: it is cached and cheap
    preps = [prepare_block(b, blocks) for b in sel]
    with cf.ThreadPoolExecutor(max_workers=JOBS) as ex:
        futs = [ex.submit(run_block, p, blocks, keep, verbose) for p in preps]
        for f in futs:
            r = f.result()
            results.append(r)
            if verbose:
                print('%-9s %-50s %5.1fs %-5s %s' % (r.status, r.block.name + ('/IEEE' if r.block.mode == 'IEEE' else ''),
                                                       r.time, r.solver or '', r.reason[:200]), flush=True)
    return results


# --------------------------------------------------------------------------
#  deciding a property
# --------------------------------------------------------------------------
TRUSTED_BASE = [
    'clang 14 front end: the typed AST is taken as the meaning of the C++ source',
    'bs2c translator (by-value C rendering of the instantiated bodies; DESIGN.md 3.2 lists what it changes)',
    'goto-cc / goto-instrument --dfcc / cbmc 6.11.0 and the SMT solver that answered (cvc5 1.0.x, z3 4.8.12)',
    'STL shim rt/bs_rt_*.h: std::array/vector/optional/shared_ptr/min/max/lower_bound/unique/distance modelled from the C++ standard',
]
ASSUMPTIONS_COMMON = [
    'scalar T is interpreted as the mathematical rationals (__CPROVER_rational); nothing is claimed about floating-point rounding',
    'every std::vector holds at most 65536 elements (BS_CAP, the max_size stand-in); at most 4 distinct grid vectors are alive in one call (BS_NG)',
    'reference parameters are passed by value: aliasing between arguments (self-assignment, a += a through references) is not modelled',
    'allocation failure, noexcept termination, exception message strings and threads are not modelled',
    'logical grid equality is the ghost relation BS_GEQ (an equivalence on heap ids that implies equal lengths and, where a harness says so, equal elements); this is a definitional extension, see rt/harness.h',
    'template instantiations: only those named in fe/drivers/*.cpp (spline orders 0..3 unless stated otherwise)',
]


# C12: the statement itself is decided in a bounded instance only (bounded_standins), the proofs cover interpolate's
# bookkeeping: neither 'proof' nor exhaustive model checking -- level 'other', with the explanation in the evidence
EVIDENCE_LEVEL = {'C12': 'other'}


def load_known():
    out = []
    p = os.path.join(ROOT, 'known_findings.txt')
    if os.path.exists(p):
        for line in open(p):
            line = line.strip()
            m = re.match(r'finding:\s+property=(\S+)\s+match=(\S+)\s+(.*)$', line)
            if m:
                out.append((m.group(1), re.compile(m.group(2)), m.group(3)))
    return out


def clause_of(r, o):
    try:
        ln = int(o.get('line') or 0)
    except ValueError:
        ln = 0
    lm = getattr(r, 'linemap', {})
    return lm[ln][3] if ln in lm else (o.get('desc') or '')


def closure_of(sel, blocks, tier):
    """the contract blocks of every function the selected blocks use through its contract (`replace`), transitively:
    a proof that replaces a call by a contract is only as good as that contract (DESIGN.md section 7)"""
    byname = {(b.name, b.mode): b for b in blocks if b.kind == 'function'}
    out, seen, todo = [], {id(b) for b in sel}, list(sel)
    while todo:
        b = todo.pop()
        for rname in b.replace:
            cb = byname.get((rname, b.mode)) or byname.get((rname, 'EXACT'))
            if cb is None or getattr(cb, 'assumed', None) or id(cb) in seen:
                continue
            if not (tier == 'thorough' or cb.tier == 'quick'):
                continue
            seen.add(id(cb))
            out.append(cb)
            todo.append(cb)
            # the case twin of a callee belongs to its proof
            tw = byname.get((cb.fn + '#case1', cb.mode))
            if tw is not None and id(tw) not in seen and '#' not in cb.name:
                seen.add(id(tw))
                out.append(tw)
    return out


def bad_obligations(r, known):
    """failing obligations of a block result that are not listed known findings"""
    out = []
    for o in r.obligations:
        if o['status'] != 'SUCCESS':
            text = '%s|%s|%s' % (r.block.name, o['id'], clause_of(r, o))
            if not any(x[1].search(text) for x in known):
                out.append(o)
    return out


def inline_fallback(failed, all_res, sel_ids, blocks, known, verbose):
    """Helper contracts that no longer hold (blocks of the closure that failed): every block that used such a function
    through its contract is decided again with the function INLINED instead.  Returns (extra results of selected blocks
    that now fail or are undecided, notes).  A selected block that still verifies means the property does not depend on
    the broken clause; a closure block that fails in turn is treated the same way one level up (at most 3 levels)."""
    import copy
    notes, out = [], []
    inl = {r.block.fn for r in failed}
    frontier = list(failed)
    for level in range(3):
        nxt = []
        names = {r.block.fn for r in frontier}
        deps = [r for r in all_res if any(x.split('#')[0] in names for x in getattr(r.block, 'replace_eff', r.block.replace))
                and r.block.fn not in inl]
        if not deps:
            break
        redo = []
        for r in deps:
            b2 = copy.copy(r.block)
            b2.name = r.block.name + '#inl' if '#' not in r.block.name else r.block.name + '_inl'
            b2.replace = [x for x in r.block.replace if x.split('#')[0] not in inl]
            b2.inlined = sorted(x for x in r.block.replace if x.split('#')[0] in inl)
            redo.append((r, b2))
        res2 = run_blocks([b2 for _, b2 in redo], blocks, verbose=verbose, keep=True)
        for (r, b2), r2 in zip(redo, res2):
            is_sel = id(r.block) in sel_ids
            if r2.status == 'proved' or (r2.status == 'failed' and not bad_obligations(r2, known)):
                notes.append('%s verifies with %s inlined (their contracts no longer hold)' % (r.block.name, ', '.join(b2.inlined)))
            elif is_sel:
                out.append(r2)
            else:
                # a closure block that does not verify either: its contract is in doubt too, go one level up
                inl.add(r.block.fn)
                nxt.append(r2)
                notes.append('%s does not verify with %s inlined: %s' % (r.block.name, ', '.join(b2.inlined), r2.reason[:120]))
        frontier = nxt
        if not frontier:
            break
    return out, notes


def check_property(pid, tier, blocks, verbose=True):
    t0 = time.time()
    sel = [b for b in blocks if (pid in b.tags or (pid == 'C09' and b.kind == 'function'))
           and (tier == 'thorough' or b.tier == 'quick') and not getattr(b, 'assumed', None)]
    if not sel:
        print('UNDECIDED: no contract block states %s' % pid)
        return 2
    clos = [] if pid == 'C09' else closure_of(sel, blocks, tier)
    clos_ids = {id(b) for b in clos}
    sel_ids = {id(b) for b in sel}
    res = run_blocks(sel + clos, blocks, verbose=verbose, keep=True)
    known = load_known()
    # closure blocks whose contract no longer holds: decide the blocks that used them again with those functions inlined
    stale_notes, stale_failed = [], []
    cl_failed = [r for r in res if id(r.block) in clos_ids and r.status == 'failed' and bad_obligations(r, known)]
    cl_und = [r for r in res if id(r.block) in clos_ids and r.status == 'undecided']
    if cl_failed:
        extra, stale_notes = inline_fallback(cl_failed, res, sel_ids, blocks, known, verbose)
        stale_failed = cl_failed
        for n_ in stale_notes:
            print('NOTE: ' + n_)
        # the failing closure blocks themselves are reported by the checks of the properties their clauses are tagged with;
        # here they count through the selected blocks that depend on them
        res = [r for r in res if r not in cl_failed] + extra
    undecided = [r for r in res if r.status == 'undecided']
    bounded_blocks = [r for r in res if r.status == 'bounded']
    violations, knowns = [], []
    n_obl = n_dis = 0
    samples, functions, solver_time, by_solver = [], {}, 0.0, {}
    os.makedirs(os.path.join(EVDIR, 'replay'), exist_ok=True)
    for r in res:
        functions.update(r.srcs)
        solver_time += getattr(r, 'solver_s', 0.0)
        for o in r.obligations:
            mine = pid in o['tags'] or 'support' in o['tags'] or (pid == 'C09' and 'C09' in o['tags'])
            if id(r.block) in clos_ids:
                mine = True      # the contract of a function this property's proofs use in place of its body
            if getattr(r.block, 'inlined', None) and o['status'] != 'SUCCESS':
                mine = True      # decided again with a helper inlined because the helper's contract no longer holds
            if not mine:
                continue
            if r.status == 'bounded':
                continue          # a bounded stand-in is reported separately and never counted as proved
            n_obl += 1
            if o['status'] == 'SUCCESS':
                n_dis += 1
                by_solver[o['solver']] = by_solver.get(o['solver'], 0) + 1
                if pid in o['tags'] and len(samples) < 12 and ('postcondition' in (o['id'] or '') or 'assertion' in (o['id'] or '')):
                    samples.append({'obligation': o['id'], 'block': r.block.name, 'clause': clause_of(r, o)[:300],
                                    'status': 'discharged', 'solver': o['solver']})
            else:
                text = '%s|%s|%s' % (r.block.name, o['id'], clause_of(r, o))
                # a listed finding is one failing obligation; the same obligation may belong to several properties
                # (every block is also a C09 block), and it is the same finding under each of them
                k = [x for x in known if x[1].search(text)]
                k.sort(key=lambda x: x[0] != pid)
                if k:
                    knowns.append((r, o, k[0][2] + ('' if k[0][0] == pid else ' (listed under %s)' % k[0][0])))
                    n_obl -= 1      # counted separately (obligations_failing_as_known_findings), never as discharged
                else:
                    violations.append((r, o))
    rc = 0
    for r, o, what in knowns:
        print('KNOWN-FINDING: property=%s %s [%s]' % (pid, what, o['id']))
    vio_files = []
    done_blocks = {}
    for n, (r, o) in enumerate(violations):
        # one native replay per block (the other failed obligations of the block point to it), at most 8 per check
        bkey = (r.block.name, r.block.mode)
        if bkey in done_blocks or len(done_blocks) >= 8:
            rp = make_replay(pid, r, o, n, blocks, same_as=done_blocks.get(bkey, 'replay budget of this check used up'))
        else:
            rp = make_replay(pid, r, o, n, blocks)
            done_blocks[bkey] = rp[0]
        vio_files.append(rp)
    if undecided:
        for r in undecided:
            print('UNDECIDED: block %s: %s' % (r.block.name, r.reason[:500]))
    for (r, o), (path, confirmed) in zip(violations, vio_files):
        print('VIOLATION property=%s replay=%s%s' % (pid, path, '' if confirmed else ' no-failing-input-found'))
    if violations:
        rc = 1
    elif undecided:
        rc = 2
    ev = {
        'property_id': pid, 'tier': tier, 'seed': int(os.environ.get('VERIF_SEED', '0') or 0),
        'level': EVIDENCE_LEVEL.get(pid, 'proof'),
        'coverage': {
            'obligations': n_obl, 'discharged': n_dis,
            'checker_cmd': 'goto-cc --function h_<f>; goto-instrument --dfcc h_<f> --enforce-contract <f> [--replace-call-with-contract g..] --apply-loop-contracts; cbmc --cvc5|--z3 ' + ' '.join(CBMC_FLAGS),
            'trusted_base': TRUSTED_BASE,
            'samples': samples,
            'functions_under_contract': functions,
            'blocks': [{'block': r.block.name, 'kind': r.block.kind, 'mode': r.block.mode, 'status': r.status,
                        'obligations': len(r.obligations), 'solver': r.solver, 'wall_s': round(r.time, 2), 'solver_s': round(getattr(r, 'solver_s', 0.0), 2),
                        'canary': r.canary, 'replaced_callees': r.block.replace, 'c_hash': r.chash,
                        'bounded': r.block.bounded, **({'from_cache': True} if getattr(r, 'cached', False) else {})} for r in res],
            'discharged_by_backend': by_solver,
            'solver_wall_s': round(solver_time, 1),
            'solver_wall_note': 'sum over blocks of the time during which a solver portfolio (cvc5 and z3 side by side) of that block was running; blocks run in parallel, so this exceeds the wall time of the check',
            'undecided_blocks': [r.block.name for r in undecided],
            'closure_blocks': sorted(b.name for b in clos),
            'closure_note': 'closure_blocks are the contracts of the functions this property\'s blocks use in place of their bodies (replace), transitively; their obligations are counted as supporting obligations of this property',
            'stale_helper_contracts': [{'block': r.block.name, 'failed': [o['id'] for o in bad_obligations(r, known)][:8]} for r in stale_failed],
            'stale_helper_notes': stale_notes,
            'bounded_standins': [{'block': r.block.name, 'bound': r.block.bounded, 'obligations_checked_in_the_bound': len(r.obligations),
                                  'note': 'NOT counted in obligations/discharged: a bounded check, not a proof'} for r in bounded_blocks],
            'known_findings': [{'obligation': o['id'], 'what': what} for r, o, what in knowns],
            'obligations_failing_as_known_findings': len(knowns),
            'repo_include_hash': repo_hash(),
            'explanation': ('C12: the conditions of the statement (ordinates reproduced, derivatives continuous, boundary conditions met) are '
                            'checked in BOUNDED instances only, listed under bounded_standins with their bound; obligations/discharged count the '
                            'unbounded proofs about interpolate\'s own bookkeeping (validation, system writes in bounds, solution copied block by '
                            'block, default boundary set). ' if pid == 'C12' else '') + 'every listed obligation is generated by goto-instrument/cbmc from C that bs2c extracts on this run from the instantiated bodies in %s; proof-level means all of them were discharged, for all inputs and all loop iterations, under the stated assumptions' % REPO,
        },
        'assumptions': ASSUMPTIONS_COMMON + sorted({a for r in res for a in getattr(r.block, 'assumes', [])}),
        'wall_s': round(time.time() - t0, 1),
        'violations': len(violations),
    }
    with open(os.path.join(EVDIR, pid + '.json'), 'w') as f:
        json.dump(ev, f, indent=1)
    if verbose:
        print('%s: %d blocks, %d/%d obligations discharged, %d violations, %d known, %d undecided, %.1fs' % (
            pid, len(res), n_dis, n_obl, len(violations), len(knowns), len(undecided), time.time() - t0))
    return rc


def make_replay(pid, r, o, n, blocks, same_as=None):
    """write the replay file of one failed obligation; returns (path, confirmed_on_real_code)"""
    path = os.path.join(EVDIR, 'replay', '%s-%d.json' % (pid, n))
    rec = {'property': pid, 'block': r.block.name, 'obligation': o['id'], 'clause': clause_of(r, o),
           'description': o['desc'], 'sources': r.srcs, 'mode': r.block.mode, 'solver': o['solver'],
           'verifier_output': '%s: %s' % (o['id'], o['status']), 'inputs': None, 'confirmed': False}
    confirmed = False
    try:
        import replay as rp
        if same_as is not None:
            rec['replay_note'] = 'not replayed separately: %s' % same_as
        else:
            confirmed = rp.build_and_run(rec, r, o, blocks, sys.modules[__name__])
    except Exception as e:      # the replay machinery must never turn a failure into a pass
        rec['replay_error'] = '%s: %s' % (type(e).__name__, e)
    rec['confirmed'] = bool(confirmed)
    with open(path, 'w') as f:
        json.dump(rec, f, indent=1)
    return path, bool(confirmed)


def main(argv):
    if not argv:
        print(__doc__)
        return 2
    cmd = argv[0]
    try:
        blocks = load_blocks()
    except Undecided as e:
        print('UNDECIDED: %s' % e)
        return 2
    if cmd == 'list':
        for b in blocks:
            print('%-8s %-50s %-6s %s' % (b.kind, b.name, b.mode, ' '.join(sorted(b.tags))))
        return 0
    if cmd == 'gen':
        b = [x for x in blocks if x.name == argv[1]][0]
        out = argv[argv.index('-o') + 1] if '-o' in argv else '/dev/stdout'
        try:
            print(gen_c(b, blocks, out)[0])
        except (Undecided, ExtractionError) as e:
            print('UNDECIDED: %s' % e)
            return 2
        return 0
    if cmd == 'check':
        pid = argv[1]
        tier = 'quick'
        if '--tier' in argv:
            tier = argv[argv.index('--tier') + 1]
        tier = os.environ.get('VERIF_TIER', tier) if '--tier' not in argv else tier
        try:
            rc = check_property(pid, tier, blocks, verbose=True)
        except Exception as e:          # an internal error is never a pass and never an alarm
            import traceback
            traceback.print_exc()
            print('UNDECIDED: internal error of the checking machinery: %s: %s' % (type(e).__name__, e))
            rc = 2
        finally:
            if not os.environ.get('BSV_SCRATCH'):
                shutil.rmtree(SCRATCH, ignore_errors=True)
        return rc
    if cmd == 'run':
        rx = re.compile(argv[1])
        sel = [b for b in blocks if rx.search(b.name) and not getattr(b, 'assumed', None)]
        res = run_blocks(sel, blocks, verbose=True, keep='--keep' in argv)
        for r in res:
            if r.status != 'proved' and '-v' in argv:
                for o in r.obligations:
                    if o['status'] != 'SUCCESS':
                        print('   ', o['id'], o['status'], o['tags'], (o['desc'] or '')[:150])
                        if o.get('line') and int(o['line']) in getattr(r, 'linemap', {}):
                            print('       ', r.linemap[int(o['line'])][3][:200])
        print('scratch:', SCRATCH)
        return 0 if all(r.status in ('proved', 'bounded') for r in res) else 1
    print('unknown command')
    return 2


if __name__ == '__main__':
    sys.exit(main(sys.argv[1:]))

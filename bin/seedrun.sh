#!/bin/bash
# usage: bin/seedrun.sh <outdir> <seeded name>...   runs the check of the mutation's own property against the mutated copy
out=$1; shift; mkdir -p "$out"
for n in "$@"; do
  p=${n%%-*}
  MUTEV="$out/ev-$n" timeout 3000 bin/trymut.sh /verif/seeded/$n/patch.diff $p > "$out/$n.log" 2>&1
  echo "$n $(grep '^RESULT' "$out/$n.log") $(grep -c '^VIOLATION' "$out/$n.log") violations, $(grep '^VIOLATION' "$out/$n.log" | grep -vc 'no-failing-input-found') replayed" >> "$out/summary"
done

/* bs_rt_post.h -- run-time shim, part 2: ghost heap of grid vectors and the
 * std:: functions used by the library, under contracts taken from the C++
 * standard (assumed; listed in the evidence).                                 */
#ifndef BS_RT_POST_H
#define BS_RT_POST_H

/* immutable ghost heap: shared_ptr<const vector<T>> is a handle into it */
struct vec_T BS_GRIDMEM[BS_NG];
size_t BS_GRID_NEXT;              /* ids >= BS_GRID_NEXT are not allocated yet */

/* ghost relation: BS_GEQ[i][j] <=> the vectors i and j hold the same sequence (std::vector operator==).
 * BS_GEQ_W[i][j] is a witness position of a difference.  Definitional: for every heap there is exactly
 * one such relation; harnesses assume the axioms below, they are not facts about the library.           */
_Bool BS_GEQ[BS_NG][BS_NG];
/* ghost flag: BS_SORTED[id] means "heap vector id is strictly increasing" (spec.h) */
_Bool BS_SORTED[BS_NG];
/* ... and, skolemised, its negation: a vector that is not strictly increasing has a non-increasing adjacent pair
 * at position BS_SORTED_W[id] (by L_sorted_adjacent_implies_global).  Both are prophecy ghosts: they speak about
 * the contents slot id holds once it is allocated.                                                             */
size_t BS_SORTED_W[BS_NG];
size_t BS_GEQ_W[BS_NG][BS_NG];

/* std::vector<T>::operator== on two grid vectors */
static inline _Bool bs_grid_data_eq(size_t i, size_t j)
{
  return BS_GEQ[bs_gid(i)][bs_gid(j)];
}

static inline size_t bs_spid(struct sp_vec_T p)
{
  __CPROVER_assert(p.id < BS_NG, "[C09] shared_ptr dereferenced only when non-null");
  return p.id;
}

/* std::lower_bound on a range of a strictly increasing grid vector.  Contract from the C++ standard
 * ([lower.bound]: on a range partitioned with respect to e < x the result is the partition point: every
 * element before it is < x, no element from it on is) combined with strict monotonicity of the range
 * (elements after the partition point are > x).  Stated quantifier-free at result-1, result and at the
 * shared ghost positions gq, gj, gj+1 (spec.h) so that callers need no quantifier instantiation; lemma
 * L_lower_bound_shim checks these derived clauses against the primitive statement.  Assumed, not verified. */
extern size_t gq, gj;
#define BS_LB_D(i) (BS_GRIDMEM[first.gid].d[i])
#define BS_LB_R (__CPROVER_return_value.pos)
#define BS_LB_AT(q) (((first.pos <= (q) && (q) < BS_LB_R) ==> BS_LB_D(q) < x) && \
                     ((BS_LB_R <= (q) && (q) < last.pos) ==> !(BS_LB_D(q) < x)) && \
                     ((BS_LB_R < (q) && (q) < last.pos) ==> x < BS_LB_D(q)))
struct it_vec_T bs_lower_bound(struct it_vec_T first, struct it_vec_T last, T x)
  __CPROVER_requires(first.gid == last.gid && first.gid < BS_NG && first.pos <= last.pos &&
                     last.pos <= BS_GRIDMEM[first.gid].n && last.pos <= BS_CAP && BS_SORTED[first.gid])
  __CPROVER_ensures(__CPROVER_return_value.gid == first.gid && first.pos <= BS_LB_R && BS_LB_R <= last.pos)
  __CPROVER_ensures(BS_LB_R > first.pos ==> BS_LB_D(BS_LB_R - 1) < x)
  __CPROVER_ensures(BS_LB_R < last.pos ==> !(BS_LB_D(BS_LB_R) < x))
  __CPROVER_ensures(BS_LB_AT(gq))
  __CPROVER_ensures(BS_LB_AT(gj))
  __CPROVER_ensures(gj + 1 == 0 || BS_LB_AT(gj + 1))
  __CPROVER_assigns()
;

/* std::unique on a whole vector ([alg.unique]: from every group of consecutive equal elements all but the first are
 * removed; returns the end of the resulting range; the elements behind it are unspecified).  Rendered with the ghost
 * position map BS_POS (spec.h): BS_POS(l) is the position element l ends up at.  Assumed contract, stated at the ghost
 * element indices gi, gi+1, at the first and last element, and (no equal neighbours remain) at the ghost position gw. */
extern size_t gi, gw;
size_t bs_unique_end;
struct bs_pos_t { size_t p[BS_CAP]; } BS_POSS;
#define BS_UQ_AT(l) (!((l) < BS_CAP && (l) < v.n) || (BS_POSS.p[l] < bs_unique_end && __CPROVER_return_value.d[BS_POSS.p[l]] == v.d[l]))
#define BS_UQ_STEP(l) (!((l) < BS_CAP && (l) + 1 < v.n) || BS_POSS.p[(l) + 1] == BS_POSS.p[l] + (v.d[(l) + 1] != v.d[l] ? 1 : 0))
struct vec_T bs_unique(struct vec_T v)
  __CPROVER_requires(v.n <= BS_CAP)
  __CPROVER_ensures(__CPROVER_return_value.n == v.n && bs_unique_end <= v.n)
  __CPROVER_ensures(v.n == 0 ? bs_unique_end == 0 : (BS_POSS.p[0] == 0 && bs_unique_end == BS_POSS.p[v.n - 1] + 1))
  __CPROVER_ensures(BS_UQ_AT(gi) && BS_UQ_AT(gi + 1) && BS_UQ_AT(gi + 2) && BS_UQ_STEP(gi) && BS_UQ_STEP(gi + 1))
  __CPROVER_ensures(!(gw < BS_CAP && gw + 1 < bs_unique_end) || __CPROVER_return_value.d[gw] != __CPROVER_return_value.d[gw + 1])
  __CPROVER_assigns(bs_unique_end)
;

/* std::make_shared<const std::vector<T>>(v): a fresh slot of the ghost heap */
static inline struct sp_vec_T bs_make_shared_vec(struct vec_T v)
{
  struct sp_vec_T p;
  BS_CAPACITY(BS_GRID_NEXT < BS_NG);
  p.id = BS_GRID_NEXT;
  BS_GRIDMEM[p.id] = v;
  BS_GRID_NEXT = BS_GRID_NEXT + 1;
  return p;
}

/* T from run-time integers: a total case table on -64..64 (cbmc has no bit-vector -> rational cast) */
static inline T T_from_int(int k)
{
  __CPROVER_assert(k >= -64 && k <= 64, "[model-limit] integer converted to T lies inside the modelled table -64..64");
  __CPROVER_assume(k >= -64 && k <= 64);   /* beyond the table nothing is claimed: the failed model-limit assertion makes the block undecided */
  T r = BS_TLIT(0);
  if (k == 1) r = BS_TLIT(1); if (k == -1) r = BS_TLIT_NEG(1);
  if (k == 2) r = BS_TLIT(2); if (k == -2) r = BS_TLIT_NEG(2);
  if (k == 3) r = BS_TLIT(3); if (k == -3) r = BS_TLIT_NEG(3);
  if (k == 4) r = BS_TLIT(4); if (k == -4) r = BS_TLIT_NEG(4);
  if (k == 5) r = BS_TLIT(5); if (k == -5) r = BS_TLIT_NEG(5);
  if (k == 6) r = BS_TLIT(6); if (k == -6) r = BS_TLIT_NEG(6);
  if (k == 7) r = BS_TLIT(7); if (k == -7) r = BS_TLIT_NEG(7);
  if (k == 8) r = BS_TLIT(8); if (k == -8) r = BS_TLIT_NEG(8);
  if (k == 9) r = BS_TLIT(9); if (k == -9) r = BS_TLIT_NEG(9);
  if (k == 10) r = BS_TLIT(10); if (k == -10) r = BS_TLIT_NEG(10);
  if (k == 11) r = BS_TLIT(11); if (k == -11) r = BS_TLIT_NEG(11);
  if (k == 12) r = BS_TLIT(12); if (k == -12) r = BS_TLIT_NEG(12);
  if (k == 13) r = BS_TLIT(13); if (k == -13) r = BS_TLIT_NEG(13);
  if (k == 14) r = BS_TLIT(14); if (k == -14) r = BS_TLIT_NEG(14);
  if (k == 15) r = BS_TLIT(15); if (k == -15) r = BS_TLIT_NEG(15);
  if (k == 16) r = BS_TLIT(16); if (k == -16) r = BS_TLIT_NEG(16);
  if (k == 17) r = BS_TLIT(17); if (k == -17) r = BS_TLIT_NEG(17);
  if (k == 18) r = BS_TLIT(18); if (k == -18) r = BS_TLIT_NEG(18);
  if (k == 19) r = BS_TLIT(19); if (k == -19) r = BS_TLIT_NEG(19);
  if (k == 20) r = BS_TLIT(20); if (k == -20) r = BS_TLIT_NEG(20);
  if (k == 21) r = BS_TLIT(21); if (k == -21) r = BS_TLIT_NEG(21);
  if (k == 22) r = BS_TLIT(22); if (k == -22) r = BS_TLIT_NEG(22);
  if (k == 23) r = BS_TLIT(23); if (k == -23) r = BS_TLIT_NEG(23);
  if (k == 24) r = BS_TLIT(24); if (k == -24) r = BS_TLIT_NEG(24);
  if (k == 25) r = BS_TLIT(25); if (k == -25) r = BS_TLIT_NEG(25);
  if (k == 26) r = BS_TLIT(26); if (k == -26) r = BS_TLIT_NEG(26);
  if (k == 27) r = BS_TLIT(27); if (k == -27) r = BS_TLIT_NEG(27);
  if (k == 28) r = BS_TLIT(28); if (k == -28) r = BS_TLIT_NEG(28);
  if (k == 29) r = BS_TLIT(29); if (k == -29) r = BS_TLIT_NEG(29);
  if (k == 30) r = BS_TLIT(30); if (k == -30) r = BS_TLIT_NEG(30);
  if (k == 31) r = BS_TLIT(31); if (k == -31) r = BS_TLIT_NEG(31);
  if (k == 32) r = BS_TLIT(32); if (k == -32) r = BS_TLIT_NEG(32);
  if (k == 33) r = BS_TLIT(33); if (k == -33) r = BS_TLIT_NEG(33);
  if (k == 34) r = BS_TLIT(34); if (k == -34) r = BS_TLIT_NEG(34);
  if (k == 35) r = BS_TLIT(35); if (k == -35) r = BS_TLIT_NEG(35);
  if (k == 36) r = BS_TLIT(36); if (k == -36) r = BS_TLIT_NEG(36);
  if (k == 37) r = BS_TLIT(37); if (k == -37) r = BS_TLIT_NEG(37);
  if (k == 38) r = BS_TLIT(38); if (k == -38) r = BS_TLIT_NEG(38);
  if (k == 39) r = BS_TLIT(39); if (k == -39) r = BS_TLIT_NEG(39);
  if (k == 40) r = BS_TLIT(40); if (k == -40) r = BS_TLIT_NEG(40);
  if (k == 41) r = BS_TLIT(41); if (k == -41) r = BS_TLIT_NEG(41);
  if (k == 42) r = BS_TLIT(42); if (k == -42) r = BS_TLIT_NEG(42);
  if (k == 43) r = BS_TLIT(43); if (k == -43) r = BS_TLIT_NEG(43);
  if (k == 44) r = BS_TLIT(44); if (k == -44) r = BS_TLIT_NEG(44);
  if (k == 45) r = BS_TLIT(45); if (k == -45) r = BS_TLIT_NEG(45);
  if (k == 46) r = BS_TLIT(46); if (k == -46) r = BS_TLIT_NEG(46);
  if (k == 47) r = BS_TLIT(47); if (k == -47) r = BS_TLIT_NEG(47);
  if (k == 48) r = BS_TLIT(48); if (k == -48) r = BS_TLIT_NEG(48);
  if (k == 49) r = BS_TLIT(49); if (k == -49) r = BS_TLIT_NEG(49);
  if (k == 50) r = BS_TLIT(50); if (k == -50) r = BS_TLIT_NEG(50);
  if (k == 51) r = BS_TLIT(51); if (k == -51) r = BS_TLIT_NEG(51);
  if (k == 52) r = BS_TLIT(52); if (k == -52) r = BS_TLIT_NEG(52);
  if (k == 53) r = BS_TLIT(53); if (k == -53) r = BS_TLIT_NEG(53);
  if (k == 54) r = BS_TLIT(54); if (k == -54) r = BS_TLIT_NEG(54);
  if (k == 55) r = BS_TLIT(55); if (k == -55) r = BS_TLIT_NEG(55);
  if (k == 56) r = BS_TLIT(56); if (k == -56) r = BS_TLIT_NEG(56);
  if (k == 57) r = BS_TLIT(57); if (k == -57) r = BS_TLIT_NEG(57);
  if (k == 58) r = BS_TLIT(58); if (k == -58) r = BS_TLIT_NEG(58);
  if (k == 59) r = BS_TLIT(59); if (k == -59) r = BS_TLIT_NEG(59);
  if (k == 60) r = BS_TLIT(60); if (k == -60) r = BS_TLIT_NEG(60);
  if (k == 61) r = BS_TLIT(61); if (k == -61) r = BS_TLIT_NEG(61);
  if (k == 62) r = BS_TLIT(62); if (k == -62) r = BS_TLIT_NEG(62);
  if (k == 63) r = BS_TLIT(63); if (k == -63) r = BS_TLIT_NEG(63);
  if (k == 64) r = BS_TLIT(64); if (k == -64) r = BS_TLIT_NEG(64);
  return r;
}
static inline T T_from_size(size_t k)
{
  __CPROVER_assert(k <= 64, "[model-limit] integer converted to T lies inside the modelled table 0..64");
  __CPROVER_assume(k <= 64);   /* beyond the table nothing is claimed: the failed model-limit assertion makes the block undecided */
  T r = BS_TLIT(0);
  if (k == 1UL) r = BS_TLIT(1);
  if (k == 2UL) r = BS_TLIT(2);
  if (k == 3UL) r = BS_TLIT(3);
  if (k == 4UL) r = BS_TLIT(4);
  if (k == 5UL) r = BS_TLIT(5);
  if (k == 6UL) r = BS_TLIT(6);
  if (k == 7UL) r = BS_TLIT(7);
  if (k == 8UL) r = BS_TLIT(8);
  if (k == 9UL) r = BS_TLIT(9);
  if (k == 10UL) r = BS_TLIT(10);
  if (k == 11UL) r = BS_TLIT(11);
  if (k == 12UL) r = BS_TLIT(12);
  if (k == 13UL) r = BS_TLIT(13);
  if (k == 14UL) r = BS_TLIT(14);
  if (k == 15UL) r = BS_TLIT(15);
  if (k == 16UL) r = BS_TLIT(16);
  if (k == 17UL) r = BS_TLIT(17);
  if (k == 18UL) r = BS_TLIT(18);
  if (k == 19UL) r = BS_TLIT(19);
  if (k == 20UL) r = BS_TLIT(20);
  if (k == 21UL) r = BS_TLIT(21);
  if (k == 22UL) r = BS_TLIT(22);
  if (k == 23UL) r = BS_TLIT(23);
  if (k == 24UL) r = BS_TLIT(24);
  if (k == 25UL) r = BS_TLIT(25);
  if (k == 26UL) r = BS_TLIT(26);
  if (k == 27UL) r = BS_TLIT(27);
  if (k == 28UL) r = BS_TLIT(28);
  if (k == 29UL) r = BS_TLIT(29);
  if (k == 30UL) r = BS_TLIT(30);
  if (k == 31UL) r = BS_TLIT(31);
  if (k == 32UL) r = BS_TLIT(32);
  if (k == 33UL) r = BS_TLIT(33);
  if (k == 34UL) r = BS_TLIT(34);
  if (k == 35UL) r = BS_TLIT(35);
  if (k == 36UL) r = BS_TLIT(36);
  if (k == 37UL) r = BS_TLIT(37);
  if (k == 38UL) r = BS_TLIT(38);
  if (k == 39UL) r = BS_TLIT(39);
  if (k == 40UL) r = BS_TLIT(40);
  if (k == 41UL) r = BS_TLIT(41);
  if (k == 42UL) r = BS_TLIT(42);
  if (k == 43UL) r = BS_TLIT(43);
  if (k == 44UL) r = BS_TLIT(44);
  if (k == 45UL) r = BS_TLIT(45);
  if (k == 46UL) r = BS_TLIT(46);
  if (k == 47UL) r = BS_TLIT(47);
  if (k == 48UL) r = BS_TLIT(48);
  if (k == 49UL) r = BS_TLIT(49);
  if (k == 50UL) r = BS_TLIT(50);
  if (k == 51UL) r = BS_TLIT(51);
  if (k == 52UL) r = BS_TLIT(52);
  if (k == 53UL) r = BS_TLIT(53);
  if (k == 54UL) r = BS_TLIT(54);
  if (k == 55UL) r = BS_TLIT(55);
  if (k == 56UL) r = BS_TLIT(56);
  if (k == 57UL) r = BS_TLIT(57);
  if (k == 58UL) r = BS_TLIT(58);
  if (k == 59UL) r = BS_TLIT(59);
  if (k == 60UL) r = BS_TLIT(60);
  if (k == 61UL) r = BS_TLIT(61);
  if (k == 62UL) r = BS_TLIT(62);
  if (k == 63UL) r = BS_TLIT(63);
  if (k == 64UL) r = BS_TLIT(64);
  return r;
}
#endif

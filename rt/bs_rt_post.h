/* bs_rt_post.h -- run-time shim, part 2: ghost heap of grid vectors and the
 * std:: functions used by the library, under contracts taken from the C++
 * standard (assumed; listed in the evidence).                                 */
#ifndef BS_RT_POST_H
#define BS_RT_POST_H

/* immutable ghost heap: shared_ptr<const vector<T>> is a handle into it */
struct vec_T BS_GRIDMEM[BS_NG];
size_t BS_GRID_NEXT;              /* ids >= BS_GRID_NEXT are not allocated yet */

/* ghost relation: BS_GEQ[i][j] <=> the vectors i and j hold the same sequence (std::vector operator==).
 * BS_GEQ_W[i][j] is a witness position of a difference.  Definitional: for every heap there is exactly
 * one such relation; harnesses assume the axioms below, they are not facts about the library.           */
_Bool BS_GEQ[BS_NG][BS_NG];
/* ghost flag: BS_SORTED[id] means "heap vector id is strictly increasing" (spec.h) */
_Bool BS_SORTED[BS_NG];
/* ... and, skolemised, its negation: a vector that is not strictly increasing has a non-increasing adjacent pair
 * at position BS_SORTED_W[id] (by L_sorted_adjacent_implies_global).  Both are prophecy ghosts: they speak about
 * the contents slot id holds once it is allocated.                                                             */
size_t BS_SORTED_W[BS_NG];
size_t BS_GEQ_W[BS_NG][BS_NG];

/* std::vector<T>::operator== on two grid vectors */
static inline _Bool bs_grid_data_eq(size_t i, size_t j)
{
  return BS_GEQ[bs_gid(i)][bs_gid(j)];
}

static inline size_t bs_spid(struct sp_vec_T p)
{
  __CPROVER_assert(p.id < BS_NG, "[C09] shared_ptr dereferenced only when non-null");
  return p.id;
}

/* std::lower_bound on a range of a strictly increasing grid vector.  Contract from the C++ standard
 * ([lower.bound]: on a range partitioned with respect to e < x the result is the partition point: every
 * element before it is < x, no element from it on is) combined with strict monotonicity of the range
 * (elements after the partition point are > x).  Stated quantifier-free at result-1, result and at the
 * shared ghost positions gq, gj, gj+1 (spec.h) so that callers need no quantifier instantiation; lemma
 * L_lower_bound_shim checks these derived clauses against the primitive statement.  Assumed, not verified. */
extern size_t gq, gj;
#define BS_LB_D(i) (BS_GRIDMEM[first.gid].d[i])
#define BS_LB_R (__CPROVER_return_value.pos)
#define BS_LB_AT(q) (((first.pos <= (q) && (q) < BS_LB_R) ==> BS_LB_D(q) < x) && \
                     ((BS_LB_R <= (q) && (q) < last.pos) ==> !(BS_LB_D(q) < x)) && \
                     ((BS_LB_R < (q) && (q) < last.pos) ==> x < BS_LB_D(q)))
struct it_vec_T bs_lower_bound(struct it_vec_T first, struct it_vec_T last, T x)
  __CPROVER_requires(first.gid == last.gid && first.gid < BS_NG && first.pos <= last.pos &&
                     last.pos <= BS_GRIDMEM[first.gid].n && last.pos <= BS_CAP && BS_SORTED[first.gid])
  __CPROVER_ensures(__CPROVER_return_value.gid == first.gid && first.pos <= BS_LB_R && BS_LB_R <= last.pos)
  __CPROVER_ensures(BS_LB_R > first.pos ==> BS_LB_D(BS_LB_R - 1) < x)
  __CPROVER_ensures(BS_LB_R < last.pos ==> !(BS_LB_D(BS_LB_R) < x))
  __CPROVER_ensures(BS_LB_AT(gq))
  __CPROVER_ensures(BS_LB_AT(gj))
  __CPROVER_ensures(gj + 1 == 0 || BS_LB_AT(gj + 1))
  __CPROVER_assigns()
;

/* std::unique on a whole vector ([alg.unique]: from every group of consecutive equal elements all but the first are
 * removed; returns the end of the resulting range; the elements behind it are unspecified).  Rendered with the ghost
 * position map BS_POS (spec.h): BS_POS(l) is the position element l ends up at.  Assumed contract, stated at the ghost
 * element indices gi, gi+1, at the first and last element, and (no equal neighbours remain) at the ghost position gw. */
extern size_t gi, gw;
size_t bs_unique_end;
struct bs_pos_t { size_t p[BS_CAP]; } BS_POSS;
#define BS_UQ_AT(l) (!((l) < BS_CAP && (l) < v.n) || (BS_POSS.p[l] < bs_unique_end && __CPROVER_return_value.d[BS_POSS.p[l]] == v.d[l]))
#define BS_UQ_STEP(l) (!((l) < BS_CAP && (l) + 1 < v.n) || BS_POSS.p[(l) + 1] == BS_POSS.p[l] + (v.d[(l) + 1] != v.d[l] ? 1 : 0))
struct vec_T bs_unique(struct vec_T v)
  __CPROVER_requires(v.n <= BS_CAP)
  __CPROVER_ensures(__CPROVER_return_value.n == v.n && bs_unique_end <= v.n)
  __CPROVER_ensures(v.n == 0 ? bs_unique_end == 0 : (BS_POSS.p[0] == 0 && bs_unique_end == BS_POSS.p[v.n - 1] + 1))
  __CPROVER_ensures(BS_UQ_AT(gi) && BS_UQ_AT(gi + 1) && BS_UQ_AT(gi + 2) && BS_UQ_STEP(gi) && BS_UQ_STEP(gi + 1))
  __CPROVER_ensures(!(gw < BS_CAP && gw + 1 < bs_unique_end) || __CPROVER_return_value.d[gw] != __CPROVER_return_value.d[gw + 1])
  __CPROVER_assigns(bs_unique_end)
;

/* std::make_shared<const std::vector<T>>(v): a fresh slot of the ghost heap */
static inline struct sp_vec_T bs_make_shared_vec(struct vec_T v)
{
  struct sp_vec_T p;
  BS_CAPACITY(BS_GRID_NEXT < BS_NG);
  p.id = BS_GRID_NEXT;
  BS_GRIDMEM[p.id] = v;
  BS_GRID_NEXT = BS_GRID_NEXT + 1;
  return p;
}

/* T from run-time integers: a total case table on -64..64 (cbmc has no bit-vector -> rational cast) */
static inline T T_from_int(int k)
{
  __CPROVER_assert(k >= -64 && k <= 64, "[shim] integer converted to T lies inside the modelled table -64..64");
  T r = 0;
  if (k == 1) r = 1; if (k == -1) r = -1;
  if (k == 2) r = 2; if (k == -2) r = -2;
  if (k == 3) r = 3; if (k == -3) r = -3;
  if (k == 4) r = 4; if (k == -4) r = -4;
  if (k == 5) r = 5; if (k == -5) r = -5;
  if (k == 6) r = 6; if (k == -6) r = -6;
  if (k == 7) r = 7; if (k == -7) r = -7;
  if (k == 8) r = 8; if (k == -8) r = -8;
  if (k == 9) r = 9; if (k == -9) r = -9;
  if (k == 10) r = 10; if (k == -10) r = -10;
  if (k == 11) r = 11; if (k == -11) r = -11;
  if (k == 12) r = 12; if (k == -12) r = -12;
  if (k == 13) r = 13; if (k == -13) r = -13;
  if (k == 14) r = 14; if (k == -14) r = -14;
  if (k == 15) r = 15; if (k == -15) r = -15;
  if (k == 16) r = 16; if (k == -16) r = -16;
  if (k == 17) r = 17; if (k == -17) r = -17;
  if (k == 18) r = 18; if (k == -18) r = -18;
  if (k == 19) r = 19; if (k == -19) r = -19;
  if (k == 20) r = 20; if (k == -20) r = -20;
  if (k == 21) r = 21; if (k == -21) r = -21;
  if (k == 22) r = 22; if (k == -22) r = -22;
  if (k == 23) r = 23; if (k == -23) r = -23;
  if (k == 24) r = 24; if (k == -24) r = -24;
  if (k == 25) r = 25; if (k == -25) r = -25;
  if (k == 26) r = 26; if (k == -26) r = -26;
  if (k == 27) r = 27; if (k == -27) r = -27;
  if (k == 28) r = 28; if (k == -28) r = -28;
  if (k == 29) r = 29; if (k == -29) r = -29;
  if (k == 30) r = 30; if (k == -30) r = -30;
  if (k == 31) r = 31; if (k == -31) r = -31;
  if (k == 32) r = 32; if (k == -32) r = -32;
  if (k == 33) r = 33; if (k == -33) r = -33;
  if (k == 34) r = 34; if (k == -34) r = -34;
  if (k == 35) r = 35; if (k == -35) r = -35;
  if (k == 36) r = 36; if (k == -36) r = -36;
  if (k == 37) r = 37; if (k == -37) r = -37;
  if (k == 38) r = 38; if (k == -38) r = -38;
  if (k == 39) r = 39; if (k == -39) r = -39;
  if (k == 40) r = 40; if (k == -40) r = -40;
  if (k == 41) r = 41; if (k == -41) r = -41;
  if (k == 42) r = 42; if (k == -42) r = -42;
  if (k == 43) r = 43; if (k == -43) r = -43;
  if (k == 44) r = 44; if (k == -44) r = -44;
  if (k == 45) r = 45; if (k == -45) r = -45;
  if (k == 46) r = 46; if (k == -46) r = -46;
  if (k == 47) r = 47; if (k == -47) r = -47;
  if (k == 48) r = 48; if (k == -48) r = -48;
  if (k == 49) r = 49; if (k == -49) r = -49;
  if (k == 50) r = 50; if (k == -50) r = -50;
  if (k == 51) r = 51; if (k == -51) r = -51;
  if (k == 52) r = 52; if (k == -52) r = -52;
  if (k == 53) r = 53; if (k == -53) r = -53;
  if (k == 54) r = 54; if (k == -54) r = -54;
  if (k == 55) r = 55; if (k == -55) r = -55;
  if (k == 56) r = 56; if (k == -56) r = -56;
  if (k == 57) r = 57; if (k == -57) r = -57;
  if (k == 58) r = 58; if (k == -58) r = -58;
  if (k == 59) r = 59; if (k == -59) r = -59;
  if (k == 60) r = 60; if (k == -60) r = -60;
  if (k == 61) r = 61; if (k == -61) r = -61;
  if (k == 62) r = 62; if (k == -62) r = -62;
  if (k == 63) r = 63; if (k == -63) r = -63;
  if (k == 64) r = 64; if (k == -64) r = -64;
  return r;
}
static inline T T_from_size(size_t k)
{
  __CPROVER_assert(k <= 64, "[shim] integer converted to T lies inside the modelled table 0..64");
  T r = 0;
  if (k == 1UL) r = 1;
  if (k == 2UL) r = 2;
  if (k == 3UL) r = 3;
  if (k == 4UL) r = 4;
  if (k == 5UL) r = 5;
  if (k == 6UL) r = 6;
  if (k == 7UL) r = 7;
  if (k == 8UL) r = 8;
  if (k == 9UL) r = 9;
  if (k == 10UL) r = 10;
  if (k == 11UL) r = 11;
  if (k == 12UL) r = 12;
  if (k == 13UL) r = 13;
  if (k == 14UL) r = 14;
  if (k == 15UL) r = 15;
  if (k == 16UL) r = 16;
  if (k == 17UL) r = 17;
  if (k == 18UL) r = 18;
  if (k == 19UL) r = 19;
  if (k == 20UL) r = 20;
  if (k == 21UL) r = 21;
  if (k == 22UL) r = 22;
  if (k == 23UL) r = 23;
  if (k == 24UL) r = 24;
  if (k == 25UL) r = 25;
  if (k == 26UL) r = 26;
  if (k == 27UL) r = 27;
  if (k == 28UL) r = 28;
  if (k == 29UL) r = 29;
  if (k == 30UL) r = 30;
  if (k == 31UL) r = 31;
  if (k == 32UL) r = 32;
  if (k == 33UL) r = 33;
  if (k == 34UL) r = 34;
  if (k == 35UL) r = 35;
  if (k == 36UL) r = 36;
  if (k == 37UL) r = 37;
  if (k == 38UL) r = 38;
  if (k == 39UL) r = 39;
  if (k == 40UL) r = 40;
  if (k == 41UL) r = 41;
  if (k == 42UL) r = 42;
  if (k == 43UL) r = 43;
  if (k == 44UL) r = 44;
  if (k == 45UL) r = 45;
  if (k == 46UL) r = 46;
  if (k == 47UL) r = 47;
  if (k == 48UL) r = 48;
  if (k == 49UL) r = 49;
  if (k == 50UL) r = 50;
  if (k == 51UL) r = 51;
  if (k == 52UL) r = 52;
  if (k == 53UL) r = 53;
  if (k == 54UL) r = 54;
  if (k == 55UL) r = 55;
  if (k == 56UL) r = 56;
  if (k == 57UL) r = 57;
  if (k == 58UL) r = 58;
  if (k == 59UL) r = 59;
  if (k == 60UL) r = 60;
  if (k == 61UL) r = 61;
  if (k == 62UL) r = 62;
  if (k == 63UL) r = 63;
  if (k == 64UL) r = 64;
  return r;
}
#endif

/* harness.h -- common prologue of every generated harness: everything a proof
 * may depend on starts out arbitrary.                                          */
#ifndef BS_HARNESS_H
#define BS_HARNESS_H
#ifndef BS_CANARY
#define BS_CANARY()
#endif
static void bs_harness_init(void)
{
  /* the ghost heap of grid vectors: arbitrary contents */
  struct vec_T bs_v0, bs_v1, bs_v2, bs_v3;
  BS_GRIDMEM[0] = bs_v0;
  BS_GRIDMEM[1] = bs_v1;
  BS_GRIDMEM[2] = bs_v2;
  BS_GRIDMEM[3] = bs_v3;
  size_t bs_next;
  BS_GRID_NEXT = bs_next;
  /* logical grid equality: an arbitrary equivalence relation on heap ids
   * (reflexive, symmetric, transitive; the connection to the contents is
   * assumed by the harnesses that need it, see BS_GEQ_CONTENT)            */
  _Bool bs_e[BS_NG][BS_NG];
  size_t bs_w[BS_NG][BS_NG];
  for (size_t i = 0; i < BS_NG; i++)
    for (size_t j = 0; j < BS_NG; j++) {
      BS_GEQ[i][j] = (bs_e[i][j] ? 1 : 0);   /* normalised: a nondet _Bool byte may be 2 */
      BS_GEQ_W[i][j] = bs_w[i][j];
    }
  for (size_t i = 0; i < BS_NG; i++) {
    __CPROVER_assume(BS_GEQ[i][i]);
    for (size_t j = 0; j < BS_NG; j++) {
      __CPROVER_assume(BS_GEQ[i][j] == BS_GEQ[j][i]);
      /* equal sequences have equal lengths; and a witness of difference otherwise (skolemised, quantifier-free) */
      __CPROVER_assume(!BS_GEQ[i][j] || BS_GRIDMEM[i].n == BS_GRIDMEM[j].n);
      __CPROVER_assume(BS_GEQ[i][j] || BS_GRIDMEM[i].n != BS_GRIDMEM[j].n ||
                       (BS_GEQ_W[i][j] < BS_GRIDMEM[i].n && BS_GEQ_W[i][j] < BS_CAP &&
                        BS_GRIDMEM[i].d[BS_GEQ_W[i][j]] != BS_GRIDMEM[j].d[BS_GEQ_W[i][j]]));
      for (size_t k = 0; k < BS_NG; k++)
        __CPROVER_assume(!(BS_GEQ[i][j] && BS_GEQ[j][k]) || BS_GEQ[i][k]);
    }
  }
  /* sortedness flags: arbitrary */
  _Bool bs_s[BS_NG];
  for (size_t i = 0; i < BS_NG; i++) BS_SORTED[i] = (bs_s[i] ? 1 : 0);
  /* ghost indices and points: arbitrary */
  size_t bs_g1, bs_g2, bs_g3, bs_g4, bs_g5;
  gq = bs_g1; gj = bs_g2; gk = bs_g3; gi = bs_g4; gw = bs_g5;
  T bs_u, bs_x;
  gu = bs_u; gx = bs_x;
  bs_exc = 0;
}
#endif

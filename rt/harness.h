/* harness.h -- common prologue of every generated harness: everything a proof
 * may depend on starts out arbitrary.                                          */
#ifndef BS_HARNESS_H
#define BS_HARNESS_H
#ifndef BS_CANARY
#define BS_CANARY()
#endif
static void bs_harness_init(void)
{
  /* the ghost heap of grid vectors: arbitrary contents */
  struct vec_T bs_v0, bs_v1, bs_v2, bs_v3;
  BS_GRIDMEM[0] = bs_v0;
  BS_GRIDMEM[1] = bs_v1;
  BS_GRIDMEM[2] = bs_v2;
  BS_GRIDMEM[3] = bs_v3;
  size_t bs_next;
  BS_GRID_NEXT = bs_next;
  /* logical grid equality: an arbitrary equivalence relation on heap ids
   * (reflexive, symmetric, transitive; the connection to the contents is
   * assumed by the harnesses that need it, see BS_GEQ_CONTENT)            */
  _Bool bs_e[BS_NG][BS_NG];
  size_t bs_w[BS_NG][BS_NG];
  /* written out without loops (BS_NG == 4): every loop costs unwinding work in each of the proofs */
#define BS_H2(i, j) \
  BS_GEQ[i][j] = (bs_e[i][j] ? 1 : 0); /* normalised: a nondet _Bool byte may be 2 */ \
  BS_GEQ_W[i][j] = bs_w[i][j];
#define BS_H1(i) BS_H2(i, 0) BS_H2(i, 1) BS_H2(i, 2) BS_H2(i, 3)
  BS_H1(0) BS_H1(1) BS_H1(2) BS_H1(3)
#define BS_AX3(i, j, k) __CPROVER_assume(!(BS_GEQ[i][j] && BS_GEQ[j][k]) || BS_GEQ[i][k]);
#define BS_AX2(i, j) \
  __CPROVER_assume(BS_GEQ[i][j] == BS_GEQ[j][i]); \
  /* equal sequences have equal lengths; and a witness of difference otherwise (skolemised, quantifier-free) */ \
  __CPROVER_assume(!BS_GEQ[i][j] || BS_GRIDMEM[i].n == BS_GRIDMEM[j].n); \
  __CPROVER_assume(BS_GEQ[i][j] || BS_GRIDMEM[i].n != BS_GRIDMEM[j].n || \
                   (BS_GEQ_W[i][j] < BS_GRIDMEM[i].n && BS_GEQ_W[i][j] < BS_CAP && \
                    BS_GRIDMEM[i].d[BS_GEQ_W[i][j]] != BS_GRIDMEM[j].d[BS_GEQ_W[i][j]])); \
  BS_AX3(i, j, 0) BS_AX3(i, j, 1) BS_AX3(i, j, 2) BS_AX3(i, j, 3)
#define BS_AX1(i) __CPROVER_assume(BS_GEQ[i][i]); BS_AX2(i, 0) BS_AX2(i, 1) BS_AX2(i, 2) BS_AX2(i, 3)
#ifndef BS_IEEE   /* with NaN elements vector equality is not reflexive: the IEEE-mode proofs do not use BS_GEQ */
  BS_AX1(0) BS_AX1(1) BS_AX1(2) BS_AX1(3)
#endif
  /* sortedness flags: arbitrary */
  _Bool bs_s[BS_NG];
  BS_SORTED[0] = (bs_s[0] ? 1 : 0); BS_SORTED[1] = (bs_s[1] ? 1 : 0);
  BS_SORTED[2] = (bs_s[2] ? 1 : 0); BS_SORTED[3] = (bs_s[3] ? 1 : 0);
  size_t bs_sw[BS_NG];
  BS_SORTED_W[0] = bs_sw[0]; BS_SORTED_W[1] = bs_sw[1]; BS_SORTED_W[2] = bs_sw[2]; BS_SORTED_W[3] = bs_sw[3];
#define BS_SW(i) __CPROVER_assume(BS_SORTED[i] || (BS_SORTED_W[i] < BS_CAP && BS_SORTED_W[i] + 1 < BS_GRIDMEM[i].n && BS_SORTED_W[i] + 1 < BS_CAP && \
      !(BS_GRIDMEM[i].d[BS_SORTED_W[i]] < BS_GRIDMEM[i].d[BS_SORTED_W[i] + 1])));
  BS_SW(0) BS_SW(1) BS_SW(2) BS_SW(3)
#if BS_CAP <= 16
  /* small instance (refutation / canary / replay runs, every vector capped at BS_CAP elements): the ghost
   * relations are *defined* exactly from the contents, so a counterexample found here is fully concrete */
#define BS_EQK(i, j, k) (!((k) < BS_GRIDMEM[i].n) || BS_GRIDMEM[i].d[k] == BS_GRIDMEM[j].d[k])
#define BS_DEF2(i, j) __CPROVER_assume(BS_GEQ[i][j] == (BS_GRIDMEM[i].n == BS_GRIDMEM[j].n && BS_GRIDMEM[i].n <= BS_CAP && \
      BS_EQK(i, j, 0) && BS_EQK(i, j, 1) && BS_EQK(i, j, 2) && BS_EQK(i, j, 3) && BS_EQK(i, j, 4) && BS_EQK(i, j, 5) && \
      BS_EQK(i, j, 6) && BS_EQK(i, j, 7)));
#define BS_DEF1(i) BS_DEF2(i, 0) BS_DEF2(i, 1) BS_DEF2(i, 2) BS_DEF2(i, 3)
#ifndef BS_IEEE
  BS_DEF1(0) BS_DEF1(1) BS_DEF1(2) BS_DEF1(3)
#endif
#define BS_INCK(i, k) (!((k) + 1 < BS_GRIDMEM[i].n) || BS_GRIDMEM[i].d[k] < BS_GRIDMEM[i].d[(k) + 1])
#define BS_SDEF(i) __CPROVER_assume(BS_SORTED[i] == (BS_GRIDMEM[i].n <= BS_CAP && BS_INCK(i, 0) && BS_INCK(i, 1) && \
      BS_INCK(i, 2) && BS_INCK(i, 3) && BS_INCK(i, 4) && BS_INCK(i, 5) && BS_INCK(i, 6)));
  BS_SDEF(0) BS_SDEF(1) BS_SDEF(2) BS_SDEF(3)
#endif
  /* ghost indices and points: arbitrary */
  size_t bs_g1, bs_g2, bs_g3, bs_g4, bs_g5, bs_g6, bs_g7;
  gq = bs_g1; gj = bs_g2; gk = bs_g3; gi = bs_g4; gw = bs_g5; gr = bs_g6; bs_veq_w = bs_g7;
  size_t bs_g10; ge = bs_g10;
  size_t bs_g8, bs_g9; gq2 = bs_g8; gg = (bs_g9 < BS_NG ? bs_g9 : 0);   /* gg ranges over the heap ids */
  T bs_u, bs_x;
  gu = bs_u; gx = bs_x;
  struct bs_sum_t bs_sums;
  BS_SUMS = bs_sums;
  struct bs_pos_t bs_poss;
  BS_POSS = bs_poss;
  struct bs_solx_t bs_solx;
  BS_SOLX = bs_solx;
  T bs_eps;
  __CPROVER_assume(bs_eps > 0);
  BS_EPSILON = bs_eps;
  bs_exc = 0;
}
#endif

/* spec.h -- specification vocabulary, written from the mathematics of the
 * property statements and independent of the library code.  Everything here is
 * a call-free expression macro (usable in contracts, invariants, quantifiers)
 * or a ghost variable that no extracted function may assign.                   */
#ifndef BS_SPEC_H
#define BS_SPEC_H

/* ---- error codes as thrown: bs_exc == EXC_x  <=>  BSplineException(ErrorCode::x) in flight */
#define EXC_DIFFERING_GRIDS   (1 + 0)
#define EXC_INCONSISTENT_DATA (1 + 1)
#define EXC_MISSING_DATA      (1 + 2)
#define EXC_INVALID_ACCESS    (1 + 3)
#define EXC_UNDETERMINED      (1 + 4)

/* ---- ghost indices: "for every interval / coefficient / grid point" becomes
 *      "for the arbitrary index g?" (quantifier-free)                                   */
/* gq (ghost grid-point index) and gj (ghost absolute interval index) are declared in bs_rt_post.h */
size_t gq;
size_t gj;
size_t gq2;  /* a second ghost grid-point index */
size_t gg;   /* ghost heap id (frame clauses of the allocating functions) */
size_t gk;   /* ghost coefficient index  */
size_t gr;   /* ghost relative (vector) index */
size_t bs_veq_w; /* witness position of a difference, assigned by the vector comparison shims */
size_t gi;   /* ghost element index (splines of a collection, knots) */
size_t gw;   /* ghost witness index for iff-style validation */
size_t ge;   /* ghost element index of 'named' clauses (instantiated by callers at a loop index, bin/bsv.py ensures-named) */
T gu;        /* ghost local coordinate (offset from the interval midpoint) */
T gx;        /* ghost abscissa */

/* ---- grids ---------------------------------------------------------------- */
#define GID(g)      ((g)._data.id)
#define GV(g)       (BS_GRIDMEM[GID(g)])
#define GN(g)       (GV(g).n)
#define GRID(g, i)  (GV(g).d[i])

/* well-formed handle with at least two points (no statement about order) */
#define grid_wf(g)  (GID(g) < BS_NG && GN(g) >= 2 && GN(g) <= BS_CAP)
/* strictly increasing, adjacent form at one index */
#define grid_inc_at(g, i)  (!((i) < BS_CAP && (i) + 1 < GN(g)) || GRID(g, i) < GRID(g, (i) + 1))
/* "the vector is strictly increasing" as the two equivalent quantified statements (used only by the
 * stand-alone lemmas L_sorted_*; no proof about library code has a quantifier in it) */
#define grid_sorted_adjacent(g) \
  (__CPROVER_forall { size_t bs_q1; (bs_q1 < BS_CAP && bs_q1 + 1 < GN(g)) ==> GV(g).d[bs_q1] < GV(g).d[bs_q1 + 1] })
#define grid_sorted_global(g) \
  (__CPROVER_forall { size_t bs_q2; __CPROVER_forall { size_t bs_q3; \
      (bs_q2 < bs_q3 && bs_q3 < GN(g) && bs_q3 < BS_CAP) ==> GV(g).d[bs_q2] < GV(g).d[bs_q3] } })
/* the same two statements about a plain sequence d[0..n); quantifier-free (written out) in the small instance */
#if BS_CAP > 16
#define SEQ_SORTED_ADJACENT(d, n) (__CPROVER_forall { size_t bs_q4; (bs_q4 < BS_CAP && bs_q4 + 1 < (n)) ==> (d)[bs_q4] < (d)[bs_q4 + 1] })
#define SEQ_SORTED_GLOBAL(d, n) (__CPROVER_forall { size_t bs_q5; __CPROVER_forall { size_t bs_q6; \
      (bs_q5 < bs_q6 && bs_q6 < (n) && bs_q6 < BS_CAP) ==> (d)[bs_q5] < (d)[bs_q6] } })
#else
#define SEQ_SORTED_ADJACENT(d, n) ((!(0 + 1 < (n)) || (d)[0] < (d)[1]) && (!(1 + 1 < (n)) || (d)[1] < (d)[2]) && (!(2 + 1 < (n)) || (d)[2] < (d)[3]) && (!(3 + 1 < (n)) || (d)[3] < (d)[4]) && (!(4 + 1 < (n)) || (d)[4] < (d)[5]) && (!(5 + 1 < (n)) || (d)[5] < (d)[6]) && (!(6 + 1 < (n)) || (d)[6] < (d)[7]))
#define SEQ_SORTED_GLOBAL(d, n) ((!(1 < (n)) || (d)[0] < (d)[1]) && (!(2 < (n)) || (d)[0] < (d)[2]) && (!(2 < (n)) || (d)[1] < (d)[2]) && (!(3 < (n)) || (d)[0] < (d)[3]) && (!(3 < (n)) || (d)[1] < (d)[3]) && (!(3 < (n)) || (d)[2] < (d)[3]) && (!(4 < (n)) || (d)[0] < (d)[4]) && (!(4 < (n)) || (d)[1] < (d)[4]) && (!(4 < (n)) || (d)[2] < (d)[4]) && (!(4 < (n)) || (d)[3] < (d)[4]) && (!(5 < (n)) || (d)[0] < (d)[5]) && (!(5 < (n)) || (d)[1] < (d)[5]) && (!(5 < (n)) || (d)[2] < (d)[5]) && (!(5 < (n)) || (d)[3] < (d)[5]) && (!(5 < (n)) || (d)[4] < (d)[5]) && (!(6 < (n)) || (d)[0] < (d)[6]) && (!(6 < (n)) || (d)[1] < (d)[6]) && (!(6 < (n)) || (d)[2] < (d)[6]) && (!(6 < (n)) || (d)[3] < (d)[6]) && (!(6 < (n)) || (d)[4] < (d)[6]) && (!(6 < (n)) || (d)[5] < (d)[6]) && (!(7 < (n)) || (d)[0] < (d)[7]) && (!(7 < (n)) || (d)[1] < (d)[7]) && (!(7 < (n)) || (d)[2] < (d)[7]) && (!(7 < (n)) || (d)[3] < (d)[7]) && (!(7 < (n)) || (d)[4] < (d)[7]) && (!(7 < (n)) || (d)[5] < (d)[7]) && (!(7 < (n)) || (d)[6] < (d)[7]))
#endif
/* The ghost flag BS_SORTED[id] *means* grid_sorted_global of heap vector id.  Proofs about code use it
 * only through instances: SORTED_INST(g,a,b) is the instance of the global statement at the pair (a,b);
 * harnesses assume the instances a proof needs (each is a consequence of the meaning of the flag), the
 * Grid constructor establishes the adjacent statement for the arbitrary index gw, and the lemma
 * L_sorted_adjacent_implies_global (induction, stand-alone) connects the two forms.               */
#define SORTED_INST(g, a, b) (!(GID(g) < BS_NG) || !BS_SORTED[GID(g)] || !((a) < (b) && (b) < GN(g) && (b) < BS_CAP) || GRID(g, a) < GRID(g, b))
#define grid_valid(g) (grid_wf(g) && BS_SORTED[GID(g)])
/* instance at position q of "logically equal grids hold the same elements" (the meaning of BS_GEQ) */
#define GEQ_INST(g1, g2, q) (!(GID(g1) < BS_NG && GID(g2) < BS_NG) || !BS_GEQ[GID(g1)][GID(g2)] || !((q) < GN(g1) && (q) < BS_CAP) || GRID(g1, q) == GRID(g2, q))

/* logical equality of grids: the ghost relation BS_GEQ on heap ids (bs_rt_post.h) */
#define grid_eq(g1, g2)  (BS_GEQ[GID(g1)][GID(g2)])
#define same_grid_obj(g1, g2) (GID(g1) == GID(g2))

/* ---- supports ------------------------------------------------------------- */
#define S_START(s) ((s)._startIndex)
#define S_END(s)   ((s)._endIndex)
#define S_EMPTY(s) (S_START(s) == 0 && S_END(s) == 0)
#define support_valid(s) \
  (grid_wf((s)._grid) && (S_EMPTY(s) || (S_START(s) < S_END(s) && S_END(s) <= GN((s)._grid))))
/* grid point j lies in the window */
#define CONTAINS(s, j) ((j) >= S_START(s) && (j) < S_END(s))
/* interval j (between grid points j and j+1) lies in the window; no j+1, hence no wrap */
#define HASINT(s, j)   ((j) >= S_START(s) && S_END(s) >= 1 && (j) < S_END(s) - 1)
#define S_SIZE(s)  (S_END(s) - S_START(s))
/* a quantifier-free consequence of grid_valid (proved as lemma L_window_hint): the first interval of the window
 * has positive width.  Given to the solvers as a redundant precondition so that they need not instantiate. */
#define window_hint(s) SORTED_INST((s)._grid, S_START(s), S_START(s) + 1)
#define S_NINT(s)  (S_SIZE(s) == 0 ? (size_t)0 : S_SIZE(s) - 1)
/* same window (both empty counts as same) */
#define same_window(a, b) ((S_START(a) == S_START(b) && S_END(a) == S_END(b)) || (S_SIZE(a) == 0 && S_SIZE(b) == 0))


/* ---- exact integrals over [-h, h]:  INT1_n(c0.., h) of one polynomial, INT2_a_b(a0.., b0.., h) of a product.
 *      Under BS_OPAQUE_INT they are uninterpreted functions (small-instance runs that need congruence only). */
#ifdef BS_OPAQUE_INT
T __CPROVER_uninterpreted_int1_1(T, T);
#define INT1_1(c0, h) __CPROVER_uninterpreted_int1_1(c0, h)
#else
#define INT1_1(c0, h) ((c0) * 2 * (h) / 1)
#endif
#ifdef BS_OPAQUE_INT
T __CPROVER_uninterpreted_int1_2(T, T, T);
#define INT1_2(c0, c1, h) __CPROVER_uninterpreted_int1_2(c0, c1, h)
#else
#define INT1_2(c0, c1, h) ((c0) * 2 * (h) / 1)
#endif
#ifdef BS_OPAQUE_INT
T __CPROVER_uninterpreted_int1_3(T, T, T, T);
#define INT1_3(c0, c1, c2, h) __CPROVER_uninterpreted_int1_3(c0, c1, c2, h)
#else
#define INT1_3(c0, c1, c2, h) ((c0) * 2 * (h) / 1 + (c2) * 2 * (h)*(h)*(h) / 3)
#endif
#ifdef BS_OPAQUE_INT
T __CPROVER_uninterpreted_int1_4(T, T, T, T, T);
#define INT1_4(c0, c1, c2, c3, h) __CPROVER_uninterpreted_int1_4(c0, c1, c2, c3, h)
#else
#define INT1_4(c0, c1, c2, c3, h) ((c0) * 2 * (h) / 1 + (c2) * 2 * (h)*(h)*(h) / 3)
#endif
#ifdef BS_OPAQUE_INT
T __CPROVER_uninterpreted_int1_5(T, T, T, T, T, T);
#define INT1_5(c0, c1, c2, c3, c4, h) __CPROVER_uninterpreted_int1_5(c0, c1, c2, c3, c4, h)
#else
#define INT1_5(c0, c1, c2, c3, c4, h) ((c0) * 2 * (h) / 1 + (c2) * 2 * (h)*(h)*(h) / 3 + (c4) * 2 * (h)*(h)*(h)*(h)*(h) / 5)
#endif
#ifdef BS_OPAQUE_INT
T __CPROVER_uninterpreted_int1_6(T, T, T, T, T, T, T);
#define INT1_6(c0, c1, c2, c3, c4, c5, h) __CPROVER_uninterpreted_int1_6(c0, c1, c2, c3, c4, c5, h)
#else
#define INT1_6(c0, c1, c2, c3, c4, c5, h) ((c0) * 2 * (h) / 1 + (c2) * 2 * (h)*(h)*(h) / 3 + (c4) * 2 * (h)*(h)*(h)*(h)*(h) / 5)
#endif
#ifdef BS_OPAQUE_INT
T __CPROVER_uninterpreted_int1_7(T, T, T, T, T, T, T, T);
#define INT1_7(c0, c1, c2, c3, c4, c5, c6, h) __CPROVER_uninterpreted_int1_7(c0, c1, c2, c3, c4, c5, c6, h)
#else
#define INT1_7(c0, c1, c2, c3, c4, c5, c6, h) ((c0) * 2 * (h) / 1 + (c2) * 2 * (h)*(h)*(h) / 3 + (c4) * 2 * (h)*(h)*(h)*(h)*(h) / 5 + (c6) * 2 * (h)*(h)*(h)*(h)*(h)*(h)*(h) / 7)
#endif
#ifdef BS_OPAQUE_INT
T __CPROVER_uninterpreted_int1_8(T, T, T, T, T, T, T, T, T);
#define INT1_8(c0, c1, c2, c3, c4, c5, c6, c7, h) __CPROVER_uninterpreted_int1_8(c0, c1, c2, c3, c4, c5, c6, c7, h)
#else
#define INT1_8(c0, c1, c2, c3, c4, c5, c6, c7, h) ((c0) * 2 * (h) / 1 + (c2) * 2 * (h)*(h)*(h) / 3 + (c4) * 2 * (h)*(h)*(h)*(h)*(h) / 5 + (c6) * 2 * (h)*(h)*(h)*(h)*(h)*(h)*(h) / 7)
#endif
#ifdef BS_OPAQUE_INT
T __CPROVER_uninterpreted_int2_1_1(T, T, T);
#define INT2_1_1(a0, b0, h) __CPROVER_uninterpreted_int2_1_1(a0, b0, h)
#else
#define INT2_1_1(a0, b0, h) ((a0) * (b0) * 2 * (h) / 1)
#endif
#ifdef BS_OPAQUE_INT
T __CPROVER_uninterpreted_int2_1_2(T, T, T, T);
#define INT2_1_2(a0, b0, b1, h) __CPROVER_uninterpreted_int2_1_2(a0, b0, b1, h)
#else
#define INT2_1_2(a0, b0, b1, h) ((a0) * (b0) * 2 * (h) / 1)
#endif
#ifdef BS_OPAQUE_INT
T __CPROVER_uninterpreted_int2_1_3(T, T, T, T, T);
#define INT2_1_3(a0, b0, b1, b2, h) __CPROVER_uninterpreted_int2_1_3(a0, b0, b1, b2, h)
#else
#define INT2_1_3(a0, b0, b1, b2, h) ((a0) * (b0) * 2 * (h) / 1 + (a0) * (b2) * 2 * (h)*(h)*(h) / 3)
#endif
#ifdef BS_OPAQUE_INT
T __CPROVER_uninterpreted_int2_1_4(T, T, T, T, T, T);
#define INT2_1_4(a0, b0, b1, b2, b3, h) __CPROVER_uninterpreted_int2_1_4(a0, b0, b1, b2, b3, h)
#else
#define INT2_1_4(a0, b0, b1, b2, b3, h) ((a0) * (b0) * 2 * (h) / 1 + (a0) * (b2) * 2 * (h)*(h)*(h) / 3)
#endif
#ifdef BS_OPAQUE_INT
T __CPROVER_uninterpreted_int2_1_5(T, T, T, T, T, T, T);
#define INT2_1_5(a0, b0, b1, b2, b3, b4, h) __CPROVER_uninterpreted_int2_1_5(a0, b0, b1, b2, b3, b4, h)
#else
#define INT2_1_5(a0, b0, b1, b2, b3, b4, h) ((a0) * (b0) * 2 * (h) / 1 + (a0) * (b2) * 2 * (h)*(h)*(h) / 3 + (a0) * (b4) * 2 * (h)*(h)*(h)*(h)*(h) / 5)
#endif
#ifdef BS_OPAQUE_INT
T __CPROVER_uninterpreted_int2_2_1(T, T, T, T);
#define INT2_2_1(a0, a1, b0, h) __CPROVER_uninterpreted_int2_2_1(a0, a1, b0, h)
#else
#define INT2_2_1(a0, a1, b0, h) ((a0) * (b0) * 2 * (h) / 1)
#endif
#ifdef BS_OPAQUE_INT
T __CPROVER_uninterpreted_int2_2_2(T, T, T, T, T);
#define INT2_2_2(a0, a1, b0, b1, h) __CPROVER_uninterpreted_int2_2_2(a0, a1, b0, b1, h)
#else
#define INT2_2_2(a0, a1, b0, b1, h) ((a0) * (b0) * 2 * (h) / 1 + (a1) * (b1) * 2 * (h)*(h)*(h) / 3)
#endif
#ifdef BS_OPAQUE_INT
T __CPROVER_uninterpreted_int2_2_3(T, T, T, T, T, T);
#define INT2_2_3(a0, a1, b0, b1, b2, h) __CPROVER_uninterpreted_int2_2_3(a0, a1, b0, b1, b2, h)
#else
#define INT2_2_3(a0, a1, b0, b1, b2, h) ((a0) * (b0) * 2 * (h) / 1 + (a0) * (b2) * 2 * (h)*(h)*(h) / 3 + (a1) * (b1) * 2 * (h)*(h)*(h) / 3)
#endif
#ifdef BS_OPAQUE_INT
T __CPROVER_uninterpreted_int2_2_4(T, T, T, T, T, T, T);
#define INT2_2_4(a0, a1, b0, b1, b2, b3, h) __CPROVER_uninterpreted_int2_2_4(a0, a1, b0, b1, b2, b3, h)
#else
#define INT2_2_4(a0, a1, b0, b1, b2, b3, h) ((a0) * (b0) * 2 * (h) / 1 + (a0) * (b2) * 2 * (h)*(h)*(h) / 3 + (a1) * (b1) * 2 * (h)*(h)*(h) / 3 + (a1) * (b3) * 2 * (h)*(h)*(h)*(h)*(h) / 5)
#endif
#ifdef BS_OPAQUE_INT
T __CPROVER_uninterpreted_int2_2_5(T, T, T, T, T, T, T, T);
#define INT2_2_5(a0, a1, b0, b1, b2, b3, b4, h) __CPROVER_uninterpreted_int2_2_5(a0, a1, b0, b1, b2, b3, b4, h)
#else
#define INT2_2_5(a0, a1, b0, b1, b2, b3, b4, h) ((a0) * (b0) * 2 * (h) / 1 + (a0) * (b2) * 2 * (h)*(h)*(h) / 3 + (a0) * (b4) * 2 * (h)*(h)*(h)*(h)*(h) / 5 + (a1) * (b1) * 2 * (h)*(h)*(h) / 3 + (a1) * (b3) * 2 * (h)*(h)*(h)*(h)*(h) / 5)
#endif
#ifdef BS_OPAQUE_INT
T __CPROVER_uninterpreted_int2_3_1(T, T, T, T, T);
#define INT2_3_1(a0, a1, a2, b0, h) __CPROVER_uninterpreted_int2_3_1(a0, a1, a2, b0, h)
#else
#define INT2_3_1(a0, a1, a2, b0, h) ((a0) * (b0) * 2 * (h) / 1 + (a2) * (b0) * 2 * (h)*(h)*(h) / 3)
#endif
#ifdef BS_OPAQUE_INT
T __CPROVER_uninterpreted_int2_3_2(T, T, T, T, T, T);
#define INT2_3_2(a0, a1, a2, b0, b1, h) __CPROVER_uninterpreted_int2_3_2(a0, a1, a2, b0, b1, h)
#else
#define INT2_3_2(a0, a1, a2, b0, b1, h) ((a0) * (b0) * 2 * (h) / 1 + (a1) * (b1) * 2 * (h)*(h)*(h) / 3 + (a2) * (b0) * 2 * (h)*(h)*(h) / 3)
#endif
#ifdef BS_OPAQUE_INT
T __CPROVER_uninterpreted_int2_3_3(T, T, T, T, T, T, T);
#define INT2_3_3(a0, a1, a2, b0, b1, b2, h) __CPROVER_uninterpreted_int2_3_3(a0, a1, a2, b0, b1, b2, h)
#else
#define INT2_3_3(a0, a1, a2, b0, b1, b2, h) ((a0) * (b0) * 2 * (h) / 1 + (a0) * (b2) * 2 * (h)*(h)*(h) / 3 + (a1) * (b1) * 2 * (h)*(h)*(h) / 3 + (a2) * (b0) * 2 * (h)*(h)*(h) / 3 + (a2) * (b2) * 2 * (h)*(h)*(h)*(h)*(h) / 5)
#endif
#ifdef BS_OPAQUE_INT
T __CPROVER_uninterpreted_int2_3_4(T, T, T, T, T, T, T, T);
#define INT2_3_4(a0, a1, a2, b0, b1, b2, b3, h) __CPROVER_uninterpreted_int2_3_4(a0, a1, a2, b0, b1, b2, b3, h)
#else
#define INT2_3_4(a0, a1, a2, b0, b1, b2, b3, h) ((a0) * (b0) * 2 * (h) / 1 + (a0) * (b2) * 2 * (h)*(h)*(h) / 3 + (a1) * (b1) * 2 * (h)*(h)*(h) / 3 + (a1) * (b3) * 2 * (h)*(h)*(h)*(h)*(h) / 5 + (a2) * (b0) * 2 * (h)*(h)*(h) / 3 + (a2) * (b2) * 2 * (h)*(h)*(h)*(h)*(h) / 5)
#endif
#ifdef BS_OPAQUE_INT
T __CPROVER_uninterpreted_int2_3_5(T, T, T, T, T, T, T, T, T);
#define INT2_3_5(a0, a1, a2, b0, b1, b2, b3, b4, h) __CPROVER_uninterpreted_int2_3_5(a0, a1, a2, b0, b1, b2, b3, b4, h)
#else
#define INT2_3_5(a0, a1, a2, b0, b1, b2, b3, b4, h) ((a0) * (b0) * 2 * (h) / 1 + (a0) * (b2) * 2 * (h)*(h)*(h) / 3 + (a0) * (b4) * 2 * (h)*(h)*(h)*(h)*(h) / 5 + (a1) * (b1) * 2 * (h)*(h)*(h) / 3 + (a1) * (b3) * 2 * (h)*(h)*(h)*(h)*(h) / 5 + (a2) * (b0) * 2 * (h)*(h)*(h) / 3 + (a2) * (b2) * 2 * (h)*(h)*(h)*(h)*(h) / 5 + (a2) * (b4) * 2 * (h)*(h)*(h)*(h)*(h)*(h)*(h) / 7)
#endif
#ifdef BS_OPAQUE_INT
T __CPROVER_uninterpreted_int2_4_1(T, T, T, T, T, T);
#define INT2_4_1(a0, a1, a2, a3, b0, h) __CPROVER_uninterpreted_int2_4_1(a0, a1, a2, a3, b0, h)
#else
#define INT2_4_1(a0, a1, a2, a3, b0, h) ((a0) * (b0) * 2 * (h) / 1 + (a2) * (b0) * 2 * (h)*(h)*(h) / 3)
#endif
#ifdef BS_OPAQUE_INT
T __CPROVER_uninterpreted_int2_4_2(T, T, T, T, T, T, T);
#define INT2_4_2(a0, a1, a2, a3, b0, b1, h) __CPROVER_uninterpreted_int2_4_2(a0, a1, a2, a3, b0, b1, h)
#else
#define INT2_4_2(a0, a1, a2, a3, b0, b1, h) ((a0) * (b0) * 2 * (h) / 1 + (a1) * (b1) * 2 * (h)*(h)*(h) / 3 + (a2) * (b0) * 2 * (h)*(h)*(h) / 3 + (a3) * (b1) * 2 * (h)*(h)*(h)*(h)*(h) / 5)
#endif
#ifdef BS_OPAQUE_INT
T __CPROVER_uninterpreted_int2_4_3(T, T, T, T, T, T, T, T);
#define INT2_4_3(a0, a1, a2, a3, b0, b1, b2, h) __CPROVER_uninterpreted_int2_4_3(a0, a1, a2, a3, b0, b1, b2, h)
#else
#define INT2_4_3(a0, a1, a2, a3, b0, b1, b2, h) ((a0) * (b0) * 2 * (h) / 1 + (a0) * (b2) * 2 * (h)*(h)*(h) / 3 + (a1) * (b1) * 2 * (h)*(h)*(h) / 3 + (a2) * (b0) * 2 * (h)*(h)*(h) / 3 + (a2) * (b2) * 2 * (h)*(h)*(h)*(h)*(h) / 5 + (a3) * (b1) * 2 * (h)*(h)*(h)*(h)*(h) / 5)
#endif
#ifdef BS_OPAQUE_INT
T __CPROVER_uninterpreted_int2_4_4(T, T, T, T, T, T, T, T, T);
#define INT2_4_4(a0, a1, a2, a3, b0, b1, b2, b3, h) __CPROVER_uninterpreted_int2_4_4(a0, a1, a2, a3, b0, b1, b2, b3, h)
#else
#define INT2_4_4(a0, a1, a2, a3, b0, b1, b2, b3, h) ((a0) * (b0) * 2 * (h) / 1 + (a0) * (b2) * 2 * (h)*(h)*(h) / 3 + (a1) * (b1) * 2 * (h)*(h)*(h) / 3 + (a1) * (b3) * 2 * (h)*(h)*(h)*(h)*(h) / 5 + (a2) * (b0) * 2 * (h)*(h)*(h) / 3 + (a2) * (b2) * 2 * (h)*(h)*(h)*(h)*(h) / 5 + (a3) * (b1) * 2 * (h)*(h)*(h)*(h)*(h) / 5 + (a3) * (b3) * 2 * (h)*(h)*(h)*(h)*(h)*(h)*(h) / 7)
#endif
#ifdef BS_OPAQUE_INT
T __CPROVER_uninterpreted_int2_4_5(T, T, T, T, T, T, T, T, T, T);
#define INT2_4_5(a0, a1, a2, a3, b0, b1, b2, b3, b4, h) __CPROVER_uninterpreted_int2_4_5(a0, a1, a2, a3, b0, b1, b2, b3, b4, h)
#else
#define INT2_4_5(a0, a1, a2, a3, b0, b1, b2, b3, b4, h) ((a0) * (b0) * 2 * (h) / 1 + (a0) * (b2) * 2 * (h)*(h)*(h) / 3 + (a0) * (b4) * 2 * (h)*(h)*(h)*(h)*(h) / 5 + (a1) * (b1) * 2 * (h)*(h)*(h) / 3 + (a1) * (b3) * 2 * (h)*(h)*(h)*(h)*(h) / 5 + (a2) * (b0) * 2 * (h)*(h)*(h) / 3 + (a2) * (b2) * 2 * (h)*(h)*(h)*(h)*(h) / 5 + (a2) * (b4) * 2 * (h)*(h)*(h)*(h)*(h)*(h)*(h) / 7 + (a3) * (b1) * 2 * (h)*(h)*(h)*(h)*(h) / 5 + (a3) * (b3) * 2 * (h)*(h)*(h)*(h)*(h)*(h)*(h) / 7)
#endif
#ifdef BS_OPAQUE_INT
T __CPROVER_uninterpreted_int2_5_1(T, T, T, T, T, T, T);
#define INT2_5_1(a0, a1, a2, a3, a4, b0, h) __CPROVER_uninterpreted_int2_5_1(a0, a1, a2, a3, a4, b0, h)
#else
#define INT2_5_1(a0, a1, a2, a3, a4, b0, h) ((a0) * (b0) * 2 * (h) / 1 + (a2) * (b0) * 2 * (h)*(h)*(h) / 3 + (a4) * (b0) * 2 * (h)*(h)*(h)*(h)*(h) / 5)
#endif
#ifdef BS_OPAQUE_INT
T __CPROVER_uninterpreted_int2_5_2(T, T, T, T, T, T, T, T);
#define INT2_5_2(a0, a1, a2, a3, a4, b0, b1, h) __CPROVER_uninterpreted_int2_5_2(a0, a1, a2, a3, a4, b0, b1, h)
#else
#define INT2_5_2(a0, a1, a2, a3, a4, b0, b1, h) ((a0) * (b0) * 2 * (h) / 1 + (a1) * (b1) * 2 * (h)*(h)*(h) / 3 + (a2) * (b0) * 2 * (h)*(h)*(h) / 3 + (a3) * (b1) * 2 * (h)*(h)*(h)*(h)*(h) / 5 + (a4) * (b0) * 2 * (h)*(h)*(h)*(h)*(h) / 5)
#endif
#ifdef BS_OPAQUE_INT
T __CPROVER_uninterpreted_int2_5_3(T, T, T, T, T, T, T, T, T);
#define INT2_5_3(a0, a1, a2, a3, a4, b0, b1, b2, h) __CPROVER_uninterpreted_int2_5_3(a0, a1, a2, a3, a4, b0, b1, b2, h)
#else
#define INT2_5_3(a0, a1, a2, a3, a4, b0, b1, b2, h) ((a0) * (b0) * 2 * (h) / 1 + (a0) * (b2) * 2 * (h)*(h)*(h) / 3 + (a1) * (b1) * 2 * (h)*(h)*(h) / 3 + (a2) * (b0) * 2 * (h)*(h)*(h) / 3 + (a2) * (b2) * 2 * (h)*(h)*(h)*(h)*(h) / 5 + (a3) * (b1) * 2 * (h)*(h)*(h)*(h)*(h) / 5 + (a4) * (b0) * 2 * (h)*(h)*(h)*(h)*(h) / 5 + (a4) * (b2) * 2 * (h)*(h)*(h)*(h)*(h)*(h)*(h) / 7)
#endif
#ifdef BS_OPAQUE_INT
T __CPROVER_uninterpreted_int2_5_4(T, T, T, T, T, T, T, T, T, T);
#define INT2_5_4(a0, a1, a2, a3, a4, b0, b1, b2, b3, h) __CPROVER_uninterpreted_int2_5_4(a0, a1, a2, a3, a4, b0, b1, b2, b3, h)
#else
#define INT2_5_4(a0, a1, a2, a3, a4, b0, b1, b2, b3, h) ((a0) * (b0) * 2 * (h) / 1 + (a0) * (b2) * 2 * (h)*(h)*(h) / 3 + (a1) * (b1) * 2 * (h)*(h)*(h) / 3 + (a1) * (b3) * 2 * (h)*(h)*(h)*(h)*(h) / 5 + (a2) * (b0) * 2 * (h)*(h)*(h) / 3 + (a2) * (b2) * 2 * (h)*(h)*(h)*(h)*(h) / 5 + (a3) * (b1) * 2 * (h)*(h)*(h)*(h)*(h) / 5 + (a3) * (b3) * 2 * (h)*(h)*(h)*(h)*(h)*(h)*(h) / 7 + (a4) * (b0) * 2 * (h)*(h)*(h)*(h)*(h) / 5 + (a4) * (b2) * 2 * (h)*(h)*(h)*(h)*(h)*(h)*(h) / 7)
#endif
#ifdef BS_OPAQUE_INT
T __CPROVER_uninterpreted_int2_5_5(T, T, T, T, T, T, T, T, T, T, T);
#define INT2_5_5(a0, a1, a2, a3, a4, b0, b1, b2, b3, b4, h) __CPROVER_uninterpreted_int2_5_5(a0, a1, a2, a3, a4, b0, b1, b2, b3, b4, h)
#else
#define INT2_5_5(a0, a1, a2, a3, a4, b0, b1, b2, b3, b4, h) ((a0) * (b0) * 2 * (h) / 1 + (a0) * (b2) * 2 * (h)*(h)*(h) / 3 + (a0) * (b4) * 2 * (h)*(h)*(h)*(h)*(h) / 5 + (a1) * (b1) * 2 * (h)*(h)*(h) / 3 + (a1) * (b3) * 2 * (h)*(h)*(h)*(h)*(h) / 5 + (a2) * (b0) * 2 * (h)*(h)*(h) / 3 + (a2) * (b2) * 2 * (h)*(h)*(h)*(h)*(h) / 5 + (a2) * (b4) * 2 * (h)*(h)*(h)*(h)*(h)*(h)*(h) / 7 + (a3) * (b1) * 2 * (h)*(h)*(h)*(h)*(h) / 5 + (a3) * (b3) * 2 * (h)*(h)*(h)*(h)*(h)*(h)*(h) / 7 + (a4) * (b0) * 2 * (h)*(h)*(h)*(h)*(h) / 5 + (a4) * (b2) * 2 * (h)*(h)*(h)*(h)*(h)*(h)*(h) / 7 + (a4) * (b4) * 2 * (h)*(h)*(h)*(h)*(h)*(h)*(h)*(h)*(h) / 9)
#endif

/* ---- generator: the l-th knot; BS_POS(l) is the ghost position of knot l in the grid (grid = knots without duplicates).
 *      GENINV(gen, l): the instance at l of the generator's class invariant -- knots non-decreasing, every knot a grid
 *      point, consecutive distinct knots are neighbouring grid points (established by the constructor from the contract
 *      of std::unique, assumed as instances by the member functions) */
#define KN(gen, l) ((gen)._knots.d[l])
/* (struct bs_pos_t BS_POSS is declared in bs_rt_post.h, the std::unique shim uses it) */
#define BS_POS(l) (BS_POSS.p[l])
#define GENINV(gen, l) (!((l) < BS_CAP && (l) + 1 < (gen)._knots.n) || \
  (KN(gen, l) <= KN(gen, (l) + 1) && BS_POS(l) < GN((gen)._grid) && GRID((gen)._grid, BS_POS(l)) == KN(gen, l) && \
   BS_POS((l) + 1) < GN((gen)._grid) && GRID((gen)._grid, BS_POS((l) + 1)) == KN(gen, (l) + 1) && \
   BS_POS((l) + 1) == BS_POS(l) + (KN(gen, l) < KN(gen, (l) + 1) ? 1 : 0)))
/* every element of a vector of splines is a valid spline on (the object) grid g */
#define ALLVALID_AT(v, g, q) (!((q) < (v).n) || (spline_valid((v).d[q]) && same_grid_obj(SP_GRID((v).d[q]), g)))

/* which case of a split loop step this build proves (bin/bsv.py `loop N case`) */
#ifndef BS_CASESEL
#define BS_CASESEL 0
#endif
/* selection between the quantified form of a statement and its written-out small-instance form */
#if BS_CAP > 16
#define BS_SEL(q, u) q
#else
#define BS_SEL(q, u) u
#endif

/* spline a is (at the ghost interval gj) the registered operand o of a table-rendered abstract operator */
#define IS_OPERAND(a, o) (SP_N(a) == SP_N(o) && same_grid_obj(SP_GRID(a), SP_GRID(o)) && S_START((a)._support) == S_START((o)._support) && S_END((a)._support) == S_END((o)._support))

/* ---- ghost prefix sums for the accumulation loops of the forms: BS_SUM(k) is the sum of the first k terms */
struct bs_sum_t { T s[BS_CAP + 1]; } BS_SUMS;
#define BS_SUM(k) (BS_SUMS.s[k])
/* the solution vector of the abstract linear solver of interpolate (contracts/interp.ctr): arbitrary but fixed */
struct bs_solx_t { T d[8 * BS_CAP]; } BS_SOLX;
/* ghost copy of the linear system handed to the abstract solver (bounded blocks of contracts/interp.ctr): at most BS_GS unknowns */
#define BS_GS 8
struct bs_gr_t { T d[BS_GS]; };   /* (a named row type: goto-cc rejects an anonymous structure that holds rationals) */
struct bs_gm_t { struct bs_gr_t r[BS_GS]; } BS_GM;
struct bs_gb_t { T d[BS_GS]; } BS_GB;
/* a product that is 0 when its first factor is 0 (for real multiplication: the product) -- lets the zero entries of
 * the system drop out when multiplication is an arbitrary function (BS_OPAQUE_MUL) */
#define BS_MUL0(a, b) ((a) == 0 ? BS_ZERO : BS_MUL(a, b))

/* ---- splines --------------------------------------------------------------- */
static const T BS_ZERO = 0;
static const T BS_ONE = 1;
#define SP_N(sp)       ((sp)._coefficients.n)
/* class invariant: exactly one coefficient array per interval of the support */
#define spline_valid(sp) (support_valid((sp)._support) && SP_N(sp) == S_NINT((sp)._support))
#define SP_REL(sp, j)  ((j) - S_START((sp)._support))
/* coefficient k of the polynomial stored for absolute interval j (meaningful under HASINT) */
#define COEF(sp, j, k) ((sp)._coefficients.d[SP_REL(sp, j)].c[k])
/* ... and 0 where the spline is not supported */
#define PIECE(sp, j, k) (HASINT((sp)._support, j) ? COEF(sp, j, k) : BS_ZERO)
/* midpoint and half width of absolute interval j of grid g */
#define XM(g, j)  ((GRID(g, (j) + 1) + GRID(g, j)) / 2)
#define HW(g, j)  ((GRID(g, (j) + 1) - GRID(g, j)) / 2)
#define SP_GRID(sp) ((sp)._support._grid)
/* half width of the interval with relative index r of a window starting at s (the same number as HW(g, s + r); written
 * with the index arithmetic in this association so that the solvers need no bit-vector rewriting inside nonlinear terms) */
#define HW_REL(g, s, r) ((GRID(g, (s) + ((r) + 1)) - GRID(g, (s) + (r))) / 2)

/* ---- polynomial evaluation: EVALP_n(c0..c(n-1), u) = sum c_k u^k.  Under BS_OPAQUE_EVALP the definition
 *      is hidden behind an uninterpreted function: a proof that goes through for an arbitrary function holds
 *      for the polynomial in particular (used where only congruence is needed, not arithmetic). */
#ifdef BS_OPAQUE_EVALP
T __CPROVER_uninterpreted_evalp1(T, T);
#define EVALP_1(c0, u) __CPROVER_uninterpreted_evalp1(c0, u)
#else
#define EVALP_1(c0, u) ((c0))
#endif
#ifdef BS_OPAQUE_EVALP
T __CPROVER_uninterpreted_evalp2(T, T, T);
#define EVALP_2(c0, c1, u) __CPROVER_uninterpreted_evalp2(c0, c1, u)
#else
#define EVALP_2(c0, c1, u) ((c0) + (c1)*(u))
#endif
#ifdef BS_OPAQUE_EVALP
T __CPROVER_uninterpreted_evalp3(T, T, T, T);
#define EVALP_3(c0, c1, c2, u) __CPROVER_uninterpreted_evalp3(c0, c1, c2, u)
#else
#define EVALP_3(c0, c1, c2, u) ((c0) + (c1)*(u) + (c2)*(u)*(u))
#endif
#ifdef BS_OPAQUE_EVALP
T __CPROVER_uninterpreted_evalp4(T, T, T, T, T);
#define EVALP_4(c0, c1, c2, c3, u) __CPROVER_uninterpreted_evalp4(c0, c1, c2, c3, u)
#else
#define EVALP_4(c0, c1, c2, c3, u) ((c0) + (c1)*(u) + (c2)*(u)*(u) + (c3)*(u)*(u)*(u))
#endif
#ifdef BS_OPAQUE_EVALP
T __CPROVER_uninterpreted_evalp5(T, T, T, T, T, T);
#define EVALP_5(c0, c1, c2, c3, c4, u) __CPROVER_uninterpreted_evalp5(c0, c1, c2, c3, c4, u)
#else
#define EVALP_5(c0, c1, c2, c3, c4, u) ((c0) + (c1)*(u) + (c2)*(u)*(u) + (c3)*(u)*(u)*(u) + (c4)*(u)*(u)*(u)*(u))
#endif
#ifdef BS_OPAQUE_EVALP
T __CPROVER_uninterpreted_evalp6(T, T, T, T, T, T, T);
#define EVALP_6(c0, c1, c2, c3, c4, c5, u) __CPROVER_uninterpreted_evalp6(c0, c1, c2, c3, c4, c5, u)
#else
#define EVALP_6(c0, c1, c2, c3, c4, c5, u) ((c0) + (c1)*(u) + (c2)*(u)*(u) + (c3)*(u)*(u)*(u) + (c4)*(u)*(u)*(u)*(u) + (c5)*(u)*(u)*(u)*(u)*(u))
#endif
#ifdef BS_OPAQUE_EVALP
T __CPROVER_uninterpreted_evalp7(T, T, T, T, T, T, T, T);
#define EVALP_7(c0, c1, c2, c3, c4, c5, c6, u) __CPROVER_uninterpreted_evalp7(c0, c1, c2, c3, c4, c5, c6, u)
#else
#define EVALP_7(c0, c1, c2, c3, c4, c5, c6, u) ((c0) + (c1)*(u) + (c2)*(u)*(u) + (c3)*(u)*(u)*(u) + (c4)*(u)*(u)*(u)*(u) + (c5)*(u)*(u)*(u)*(u)*(u) + (c6)*(u)*(u)*(u)*(u)*(u)*(u))
#endif
#ifdef BS_OPAQUE_EVALP
T __CPROVER_uninterpreted_evalp8(T, T, T, T, T, T, T, T, T);
#define EVALP_8(c0, c1, c2, c3, c4, c5, c6, c7, u) __CPROVER_uninterpreted_evalp8(c0, c1, c2, c3, c4, c5, c6, c7, u)
#else
#define EVALP_8(c0, c1, c2, c3, c4, c5, c6, c7, u) ((c0) + (c1)*(u) + (c2)*(u)*(u) + (c3)*(u)*(u)*(u) + (c4)*(u)*(u)*(u)*(u) + (c5)*(u)*(u)*(u)*(u)*(u) + (c6)*(u)*(u)*(u)*(u)*(u)*(u) + (c7)*(u)*(u)*(u)*(u)*(u)*(u)*(u))
#endif

#define SPEC_MAX(a, b) ((a) < (b) ? (b) : (a))
#define SPEC_MIN(a, b) ((a) < (b) ? (a) : (b))
/* the window common to two splines: first grid point, end, number of common intervals */
#define BF_IS(a, b) SPEC_MAX(S_START((a)._support), S_START((b)._support))
#define BF_IE(a, b) SPEC_MIN(S_END((a)._support), S_END((b)._support))
#define BF_NI(a, b) (BF_IS(a, b) + 1 < BF_IE(a, b) ? BF_IE(a, b) - BF_IS(a, b) - 1 : (size_t)0)

#endif

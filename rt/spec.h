/* spec.h -- specification vocabulary, written from the mathematics of the
 * property statements and independent of the library code.  Everything here is
 * a call-free expression macro (usable in contracts, invariants, quantifiers)
 * or a ghost variable that no extracted function may assign.                   */
#ifndef BS_SPEC_H
#define BS_SPEC_H

/* ---- error codes as thrown: bs_exc == EXC_x  <=>  BSplineException(ErrorCode::x) in flight */
#define EXC_DIFFERING_GRIDS   (1 + 0)
#define EXC_INCONSISTENT_DATA (1 + 1)
#define EXC_MISSING_DATA      (1 + 2)
#define EXC_INVALID_ACCESS    (1 + 3)
#define EXC_UNDETERMINED      (1 + 4)

/* ---- ghost indices: "for every interval / coefficient / grid point" becomes
 *      "for the arbitrary index g?" (quantifier-free)                                   */
size_t gq;   /* ghost grid-point index   */
size_t gj;   /* ghost absolute interval index */
size_t gk;   /* ghost coefficient index  */
size_t gi;   /* ghost element index (splines of a collection, knots) */
size_t gw;   /* ghost witness index for iff-style validation */
T gu;        /* ghost local coordinate (offset from the interval midpoint) */
T gx;        /* ghost abscissa */

/* ---- grids ---------------------------------------------------------------- */
#define GID(g)      ((g)._data.id)
#define GV(g)       (BS_GRIDMEM[GID(g)])
#define GN(g)       (GV(g).n)
#define GRID(g, i)  (GV(g).d[i])

/* well-formed handle with at least two points (no statement about order) */
#define grid_wf(g)  (GID(g) < BS_NG && GN(g) >= 2 && GN(g) <= BS_CAP)
/* strictly increasing, adjacent form at one index */
#define grid_inc_at(g, i)  (!((i) + 1 < GN(g)) || GRID(g, i) < GRID(g, (i) + 1))
/* strictly increasing: adjacent and global form, quantified (assumption side) */
#define grid_sorted(g) \
  (__CPROVER_forall { size_t bs_q1; (bs_q1 < BS_CAP && bs_q1 + 1 < GN(g)) ==> GV(g).d[bs_q1] < GV(g).d[bs_q1 + 1] })
#define grid_sorted_global(g) \
  (__CPROVER_forall { size_t bs_q2; __CPROVER_forall { size_t bs_q3; \
      (bs_q2 < bs_q3 && bs_q3 < GN(g) && bs_q3 < BS_CAP) ==> GV(g).d[bs_q2] < GV(g).d[bs_q3] } })
#define grid_valid(g) (grid_wf(g) && grid_sorted(g))

/* logical equality of grids: the ghost relation BS_GEQ on heap ids (bs_rt_post.h) */
#define grid_eq(g1, g2)  (BS_GEQ[GID(g1)][GID(g2)])
#define same_grid_obj(g1, g2) (GID(g1) == GID(g2))

/* ---- supports ------------------------------------------------------------- */
#define S_START(s) ((s)._startIndex)
#define S_END(s)   ((s)._endIndex)
#define S_EMPTY(s) (S_START(s) == 0 && S_END(s) == 0)
#define support_valid(s) \
  (grid_wf((s)._grid) && (S_EMPTY(s) || (S_START(s) < S_END(s) && S_END(s) <= GN((s)._grid))))
/* grid point j lies in the window */
#define CONTAINS(s, j) ((j) >= S_START(s) && (j) < S_END(s))
/* interval j (between grid points j and j+1) lies in the window; no j+1, hence no wrap */
#define HASINT(s, j)   ((j) >= S_START(s) && S_END(s) >= 1 && (j) < S_END(s) - 1)
#define S_SIZE(s)  (S_END(s) - S_START(s))
#define S_NINT(s)  (S_SIZE(s) == 0 ? (size_t)0 : S_SIZE(s) - 1)
/* same window (both empty counts as same) */
#define same_window(a, b) ((S_START(a) == S_START(b) && S_END(a) == S_END(b)) || (S_SIZE(a) == 0 && S_SIZE(b) == 0))

#endif

/* bs_rt_pre.h -- run-time shim, part 1: scalar type, constants, exception flag.
 * Included before the type definitions bs2c generates.                        */
#ifndef BS_RT_PRE_H
#define BS_RT_PRE_H
#include <stddef.h>

#ifdef BS_IEEE
typedef double T;                 /* IEEE mode: special values, comparisons   */
#else
typedef __CPROVER_rational T;     /* EXACT mode: the mathematical rationals    */
#endif

#ifndef BS_CAP
#define BS_CAP 65536UL            /* capacity of every by-value vector         */
#endif
#ifndef BS_NG
#define BS_NG 4UL                 /* slots in the ghost heap of grid vectors   */
#endif
#define BS_NULLID (~(size_t)0)

/* 0: no exception in flight; 1 + ErrorCode otherwise */
int bs_exc;

/* integer literals converted to T (static_cast<T>(k), implicit int->T) */
#ifdef BS_SYMBOLIC_TLIT
/* the literal as an arbitrary value ASSUMED equal to k: symbolic execution then never folds rational constants (cbmc's
 * simplifier aborts on some of them, std_expr.cpp:90); the meaning is the same */
static inline T bs_tlit(int k)
{
  T r;
  __CPROVER_assume(r == k);
  return r;
}
#define BS_TLIT(k) bs_tlit(k)
#define BS_TLIT_NEG(k) bs_tlit(-(k))
/* -a as the value r with r + a == 0 (same meaning; the simplifier aborts on (-a) * b in the unwound interpolate) */
static inline T bs_neg(T a)
{
  T r;
  __CPROVER_assume(r + a == 0);
  return r;
}
#define BS_NEG(a) bs_neg(a)
#else
#define BS_TLIT(k) (k)
#define BS_TLIT_NEG(k) (-(k))
#define BS_NEG(a) (-(a))
#endif

/* scalar multiplication and division as the extracted code performs them.  Under BS_OPAQUE_MUL they are
 * uninterpreted functions: a proof that goes through for arbitrary binary functions holds for * and / in
 * particular (used for the structural proofs, which need congruence only, not arithmetic). */
#ifdef BS_OPAQUE_MUL
T __CPROVER_uninterpreted_mul(T, T);
T __CPROVER_uninterpreted_div(T, T);
#define BS_MUL(a, b) __CPROVER_uninterpreted_mul(a, b)
#define BS_DIV(a, b) __CPROVER_uninterpreted_div(a, b)
#else
#define BS_MUL(a, b) ((a) * (b))
#define BS_DIV(a, b) ((a) / (b))
#endif

/* std::numeric_limits<T>::epsilon(): an arbitrary positive value (assumed > 0 by the harness) */
T BS_EPSILON;

/* "every vector has at most BS_CAP elements": the max_size() stand-in */
#define BS_CAPACITY(c) __CPROVER_assume(c)

/* checked index helpers: the STL preconditions, asserted */
static inline size_t bs_idx(size_t i, size_t n)
{
  __CPROVER_assert(i < n, "[C09] element access inside the container (operator[], front, back, *it)");
  return i;
}
static inline size_t bs_at(size_t i, size_t n)
{
  __CPROVER_assert(i < n, "[C11] foreign exception std::out_of_range (.at) unreachable");
  return i;
}
static inline _Bool bs_same_container(size_t g1, size_t g2)
{
  __CPROVER_assert(g1 == g2, "[C09] iterators into the same container are compared");
  return 1;
}
static inline size_t bs_it_inc(size_t pos, size_t n)
{
  __CPROVER_assert(pos < n, "[C09] an iterator that is incremented is not the end iterator");
  return pos + 1;
}
#ifndef BS_NH
#define BS_NH 2UL
#endif
static inline size_t bs_hid(size_t id)
{
  __CPROVER_assert(id < BS_NH, "[C09] iterator refers to a live vector");
  return id;
}
static inline size_t bs_gid(size_t id)
{
  __CPROVER_assert(id < BS_NG, "[C09] iterator or pointer refers to a live grid vector");
  return id;
}
#endif
